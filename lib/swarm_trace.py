"""Full-stack scenarios: running simnet, re-encoding its recorded trace for SwarmTrace.tla,
external (wire/disk level) oracles, and TLC trace validation."""
import hashlib
import json
import os
import subprocess

from common import *
import tlaval

BLOCK = 16384


def content(n, pat):
    return bytes((i * 131 + pat) % 251 for i in range(n))


class Scenario:
    """A scenario dict (see simnet.rs) plus derived geometry."""

    def __init__(self, sc):
        self.sc = sc
        t = sc['torrent']
        self.pl = t['piece_length']
        self.total = sum(t['files'])
        self.np = (self.total + self.pl - 1) // self.pl
        self.plens = [min(self.pl, self.total - i * self.pl) for i in range(self.np)]
        self.nblocks = [(x + BLOCK - 1) // BLOCK for x in self.plens]
        self.data = None
        self.pat = t.get('pat', 0)

    def bytes_of(self, i, b, l):
        if self.data is None:
            self.data = content(self.total, self.pat)
        return self.data[i * self.pl + b:i * self.pl + b + l]

    def geometry(self):
        return (self.np, tuple(self.nblocks))

    def block_index(self, i, begin, ln):
        """1-based block index of (begin, len) in piece i, or 0 if it is not one of the piece's blocks"""
        if i < 0 or i >= self.np or begin % BLOCK:
            return 0
        k = begin // BLOCK
        if k >= self.nblocks[i]:
            return 0
        want = min(BLOCK, self.plens[i] - begin)
        return k + 1 if ln == want else 0


def run_scenarios(pid, scenarios, jobs=12):
    """Run simnet on every scenario (parallel processes); returns list of raw event lists."""
    build_harness()
    d = os.path.join(outdir(pid), 'sim')
    os.makedirs(d, exist_ok=True)
    base = os.environ.get('VERIF_SCRATCH') or os.path.join(OUT, 'scratch')
    procs = []
    results = [None] * len(scenarios)

    def start(i):
        sc = dict(scenarios[i].sc)
        sc['scratch'] = os.path.join(base, '%s-%d-%d' % (pid, os.getpid(), i))
        sp = os.path.join(d, 's%d.json' % i)
        tp = os.path.join(d, 's%d.ndjson' % i)
        json.dump(sc, open(sp, 'w'))
        if os.path.exists(tp):
            os.remove(tp)
        return subprocess.Popen([harness_bin('simnet'), sp, tp], stdout=subprocess.DEVNULL, stderr=subprocess.PIPE), tp, sp

    pending = list(range(len(scenarios)))
    running = []
    while pending or running:
        while pending and len(running) < jobs:
            i = pending.pop(0)
            running.append((i,) + start(i))
        i, p, tp, sp = running.pop(0)
        try:
            _, err = p.communicate(timeout=120)
        except subprocess.TimeoutExpired:
            p.kill()
            for _, q, _, _ in running:
                q.kill()
            raise ToolError('simnet timed out on scenario %d' % i)
        if not os.path.exists(tp):
            raise ToolError('simnet produced no trace for scenario %d (rc=%s): %s' % (i, p.returncode, err.decode()[-400:]))
        results[i] = [json.loads(l) for l in open(tp) if l.strip()]
        os.remove(tp)
        os.remove(sp)
    return results


# ------------------------------------------------------------------------------------------
# re-encoding for SwarmTrace.tla
CMD = {'Init': 'Init', 'RecvChoke': 'Choke', 'RecvUnchoke': 'Unchoke', 'RecvInterested': 'Interested',
       'RecvNotInterested': 'NotInterested', 'RecvHave': 'Have', 'RecvBitfield': 'Bitfield', 'RecvRequest': 'Request',
       'PieceDone': 'PieceDone', 'PieceCancel': 'PieceCancel', 'SyncStats': 'SyncStats', 'Kill': 'Kill'}


class Encoder:
    def __init__(self, scn, events):
        self.s = scn
        self.ev = events
        reset = events[0]
        assert reset['ev'] == 'Reset'
        self.names = {p['addr']: 'p%d' % (i + 1) for i, p in enumerate(reset['peers'])}
        self.ids = {p['addr']: p['id'] for p in reset['peers']}
        self.info_hash = reset['info_hash']
        self.own_id = reset['own_id']
        self.outgoing = set()

    def name(self, addr):
        if addr and addr not in self.names:
            # an address the scenario did not declare (e.g. taken from an unexpected tracker reply)
            self.names[addr] = 'p%d' % (len(self.names) + 1)
            self.ids[addr] = ''
        return self.names.get(addr, '')

    def frame(self, f, trig=False, addr=None):
        """wire frame descriptor -> spec frame record"""
        k = f['k']
        s = self.s
        if k in ('KeepAlive', 'Choke', 'Unchoke', 'Interested', 'NotInterested', 'Start', 'TickKA', 'TickStats', 'Idle'):
            return {'t': k}
        if k == 'Handshake':
            r = {'t': k}
            if trig:
                ok = f['pstr'] == b'BitTorrent protocol'.hex() and f['ih'] == self.info_hash
                if addr in self.outgoing:
                    ok = ok and f['id'] == self.ids[addr]
                r['good'] = ok
            return r
        if k == 'Have':
            return {'t': k, 'p': f['a'][0] + 1}
        if k == 'Bitfield':
            body = bytes.fromhex(f['hex'])
            bits = [i + 1 for i in range(s.np) if i // 8 < len(body) and body[i // 8] & (0x80 >> (i % 8))]
            return {'t': k, 's': bits, 'lenok': len(body) == (s.np + 7) // 8}
        if k in ('Request', 'Cancel'):
            i, b, l = f['a']
            r = {'t': k, 'p': i + 1 if i < s.np else s.np + 1, 'b': s.block_index(i, b, l)}
            if trig:
                r['ok'] = i < s.np and l <= BLOCK and b + l <= s.plens[i]
            return r
        if k == 'Piece':
            i, b, l = f['a']
            r = {'t': k, 'p': i + 1 if i < s.np else s.np + 1, 'b': s.block_index(i, b, l) if trig else 0}
            if trig:
                # "good" = this block lets the piece be verified AND stored (an injected write fault makes it bad)
                r['good'] = i < s.np and b + l <= s.plens[i] and hashlib.sha1(s.bytes_of(i, b, l)).hexdigest() == f['sha'] \
                    and i not in s.sc.get('blocked', [])
            return r
        if k == 'BroadHave':
            return {'t': k, 'p': f['a'][0] + 1}
        if k == 'BroadPieceReleased':
            return {'t': 'BroadReleased'}
        if k == 'BroadState':
            return {'t': k, 'v': 'C' if f['me'] is True else 'U' if f['me'] is False else '-'}
        return {'t': 'Raw'}

    def hstate(self, st):
        s = self.s
        rx = st['rx']
        if rx is None:
            rxp, req, nxt, todo = 0, [], 0, []
        else:
            i = rx['p']
            rxp = i + 1
            req = [s.block_index(i, b, l) for b, l in rx['req']]
            nxt = s.block_index(i, rx['left'][0][0], rx['left'][0][1]) if rx['left'] else s.nblocks[i] + 1
            todo = sorted(s.block_index(i, b, l) for b, l in rx['left'])
        buf = [f['a'][0] + 1 for f in st['buf'] if f['k'] == 'Have']
        return {'ch': st['ch'], 'ka': st['ka'], 'hs': st['hs'], 'rxp': rxp, 'req': sorted(req), 'nxt': nxt,
                'tx': 0 if st['tx'] is None else st['tx'] + 1, 'buf': buf, 'todo': todo}

    def mstate(self, e):
        st = []
        for x in e['st']:
            st.append({'k': x[0], 'n': int(x[1:]) if x[0] == 'R' else 0})
        mp = {}
        for addr, m in e['peers'].items():
            rated = m['dl'] is not None and m['ul'] is not None
            mp[self.name(addr)] = {'pcs': [i + 1 for i, b in enumerate(m['pcs']) if b], 'pidx': 0 if m['pi'] is None else m['pi'] + 1,
                                   'amInt': m['ai'], 'amCh': m['ac'], 'int': m['i'], 'ch': m['c'], 'opt': m['o'],
                                   'dl': m['dl'] or 0, 'ul': m['ul'] or 0, 'rated': rated}
        return {'st': st, 'mp': mp, 'conn': sorted(mp), 'mg': e['round'], 'cands': e['cands'], 'ext': e['extracted']}

    def encode(self):
        out = []
        evs = self.ev
        for idx, e in enumerate(evs):
            src, ev = e['src'], e['ev']
            base = {'line': idx, 'vt': e['vt']}
            if src == 'drv':
                if ev == 'Reset':
                    out.append(dict(base, e='Reset', k=''))
                elif ev == 'Disk':
                    good = sorted(p['idx'] + 1 for p in e['pieces'] if p['good'])
                    bad = len([p for p in e['pieces'] if not p['good']])
                    out.append(dict(base, e='Disk', k='', good=good, bad=bad))
                elif ev == 'Panic':
                    out.append(dict(base, e='Panic', k='', msg=e['msg']))
                continue
            if src == 'mgr':
                k = self.name(e['peer'])
                if ev in ('Accept', 'Spawn'):
                    if ev == 'Spawn':
                        self.outgoing.add(e['peer'])
                    out.append(dict(base, e='Connect', k=k, inc=(ev == 'Accept'), **self.mstate(e)))
                elif ev == 'AcceptReject':
                    out.append(dict(base, e='ConnectRefused', k='', **self.mstate(e)))
                elif ev == 'AcceptDup':
                    out.append(dict(base, e='ConnectDup', k=k, **self.mstate(e)))
                elif ev in ('Rotate', 'RotateSkip'):
                    m = self.mstate(e)
                    out.append(dict(base, e='Rotate', k='', order=[self.name(a) for a, _ in e.get('order', [])],
                                    newopt=[self.name(a) for a in e.get('newopt', [])], **m))
                elif ev == 'TrackerPeers':
                    out.append(dict(base, e='TrackerPeers', k='', n=e['n'], **self.mstate(e)))
                elif ev == 'KillEnd' or (ev == 'Tracker'):
                    out.append(dict(base, e='Settle', k='', kill=(ev == 'KillEnd'), **self.mstate(e)))
                elif ev in CMD:
                    reply = e.get('reply', '')
                    reply = 'SendState' if reply.startswith('SendState') else 'Load' if reply == 'LoadAndSendPiece' else reply
                    ch = e.get('chosen')
                    out.append(dict(base, e='Mgr', k=k, cmd=CMD[ev], reply=reply, chosen=0 if ch is None else ch + 1, **self.mstate(e)))
                continue
            if src == 'h':
                k = self.name(e['peer'])
                trig = self.frame(e['trig'], trig=True, addr=e['peer'])
                hs = self.hstate(e['st'])
                sent = [self.frame(f) for f in e['sent']]
                rec = dict(base, k=k, trig=trig, hs=hs, sent=sent, called=e.get('called', False))
                if ev == 'Call':
                    rec.update(e='Call', cmd=CMD[e['cmd']], dl=0, ul=0)
                    if e['cmd'] == 'SyncStats':
                        # the rates travel in the command; they are logged with the manager step that stores them
                        for f in evs[idx + 1:]:
                            if f['src'] == 'mgr' and f['ev'] == 'SyncStats' and f['peer'] == e['peer']:
                                m = f['peers'][e['peer']]
                                rec['dl'], rec['ul'] = m['dl'] or 0, m['ul'] or 0
                                break
                elif ev == 'End':
                    rec['e'] = 'End'
                else:
                    rec.update(e='Exit', reason=e['reason'])     # the text is carried for reports only, never interpreted
                out.append(rec)
        return out


# ------------------------------------------------------------------------------------------
def geometry_module(pid, geo, peers):
    np_, nb = geo
    name = 'MC_SwarmTrace_%d_%s' % (np_, '_'.join(str(x) for x in nb))
    d = os.path.join(outdir(pid), 'tla')
    os.makedirs(d, exist_ok=True)
    with open(os.path.join(d, name + '.tla'), 'w') as f:
        f.write('---- MODULE %s ----\nEXTENDS SwarmTrace\nNB == %s\n====\n' % (
            name, ' @@ '.join('(%d :> %d)' % (i + 1, x) for i, x in enumerate(nb)) if nb else '<<>>'))
    cfg = os.path.join(d, name + '.cfg')
    with open(cfg, 'w') as f:
        f.write('SPECIFICATION TSpec\nCONSTANTS\n  Peers = {%s}\n  NPieces = %d\n  NBlocks <- NB\n  EndGame = 10\n  MaxUnchoked = 10\n'
                '  OptRounds = 3\n  KALimit = 2\n  Pipeline = {1, 2, 3}\n  Rates = {0}\n  FrameKinds = {}\n  BFMenu = {}\n  Own0 = {}\n  Bugs = {}\n  HS0 = FALSE\n'
                'INVARIANTS TypeOK OwnedImpliesStored ServedImpliesStored AdvertisedImpliesStored SilentBeforeHandshake NoDataBeforeHandshake '
                'OwnHandshakeFirst ServeOnlyUnchoked RxShape RequestsTile AnnouncedInOrder DeferredWhileChoked ReservedBacked '
                'AskOnlyAdvertisedAndLacked NoPanic PickSound SlotBound ViewAgreement KaBound ExtractOnlyComplete\n'
                'PROPERTIES THaveStable RotationPolicy\nPOSTCONDITION Report\nCHECK_DEADLOCK FALSE\n'
                % (', '.join('"p%d"' % (i + 1) for i in range(peers)), np_))
    return d, name, cfg


OBS_INVARIANTS = ('TypeOK OwnedImpliesStored ServedImpliesStored AdvertisedImpliesStored SilentBeforeHandshake NoDataBeforeHandshake '
                  'OwnHandshakeFirst ServeOnlyUnchoked DeferredWhileChoked ReservedBacked AskOnlyAdvertisedAndLacked NoPanic SlotBound '
                  'KaBound ExtractOnlyComplete ObsRxShape ObsAnnPrefix ObsBackedOnWire')
OBS_PROPERTIES = ('THaveStable RotationPolicy ObsDisk ObsBadHandshake ObsServe ObsTile ObsComplete ObsBitfield ObsAnnAtRest '
                  'ObsPick ObsPickNone ObsViewAtRest ObsKeepAlive ObsNoAbandon')


def obs_module(pid, geo, peers, tag=''):
    np_, nb = geo
    name = 'MC_SwarmObs_%d_%s_%s' % (np_, '_'.join(str(x) for x in nb), tag)
    d = os.path.join(outdir(pid), 'tla')
    os.makedirs(d, exist_ok=True)
    with open(os.path.join(d, name + '.tla'), 'w') as f:
        f.write('---- MODULE %s ----\nEXTENDS SwarmObs\nNB == %s\n====\n' % (
            name, ' @@ '.join('(%d :> %d)' % (i + 1, x) for i, x in enumerate(nb)) if nb else '<<>>'))
    cfg = os.path.join(d, name + '.cfg')
    with open(cfg, 'w') as f:
        f.write('SPECIFICATION OSpec\nCONSTANTS\n  Peers = {%s}\n  NPieces = %d\n  NBlocks <- NB\n  EndGame = 10\n  MaxUnchoked = 10\n'
                '  OptRounds = 3\n  KALimit = 2\n  Pipeline = {1, 2, 3}\n  Rates = {0}\n  FrameKinds = {}\n  BFMenu = {}\n  Own0 = {}\n  Bugs = {}\n  HS0 = FALSE\n'
                'INVARIANTS %s\nPROPERTIES %s\nPOSTCONDITION Report\nCHECK_DEADLOCK FALSE\n'
                % (', '.join('"p%d"' % (i + 1) for i in range(peers)), np_, OBS_INVARIANTS, OBS_PROPERTIES))
    return d, name, cfg


def obs_all(pid, scns, traces, idxs=None, jobs=8):
    """SwarmObs.tla over the given scenarios (all by default): list of problems {scenario, inv, kind:'property', ...}"""
    from concurrent.futures import ThreadPoolExecutor
    idxs = list(range(len(scns))) if idxs is None else list(idxs)
    probs = []

    def one(i):
        return i, validate_obs(pid, scns[i], traces[i], tag='o%d' % i)
    with ThreadPoolExecutor(max_workers=jobs) as ex:
        for i, res in ex.map(one, idxs):
            if res['matched'] != len(traces[i]) and not res['violated']:
                log(res['tail'])
                raise ToolError('SwarmObs could not read scenario %d to the end (%s of %d events)' % (i, res['matched'], len(traces[i])))
            for name, li in res['where']:
                ev = traces[i][li - 2] if li and 2 <= li <= len(traces[i]) + 1 else None
                probs.append({'scenario': i, 'event_index': (li - 2) if li else None, 'event': ev, 'inv': name, 'kind': 'property', 'tlc_tail': res['tail']})
    return probs


def validate_obs(pid, scn, trace, tag='obs'):
    """Property-level reading of one recorded execution (SwarmObs.tla): returns (violated formula names, consumed all, tail)."""
    npeers = max(len(scn.sc['peers']), max((int(ev['k'][1:]) for ev in trace if ev.get('k', '').startswith('p')), default=1))
    d, mod, cfg = obs_module(pid, scn.geometry(), max(npeers, 1), tag)
    tpath = os.path.join(d, mod + '.%s.ndjson' % tag)
    with open(tpath, 'w') as f:
        for ev in trace:
            f.write(json.dumps(ev) + '\n')
    res = run_tlc_trace(d, mod, cfg, tpath, cont=True)
    return res


INV_PROP = {
    'OwnedImpliesStored': 'C01', 'ServedImpliesStored': 'C01', 'AdvertisedImpliesStored': 'C11', 'SilentBeforeHandshake': 'C08',
    'NoDataBeforeHandshake': 'C08', 'OwnHandshakeFirst': 'C08', 'ServeOnlyUnchoked': 'C09', 'RxShape': 'C10', 'RequestsTile': 'C10',
    'AnnouncedInOrder': 'C11', 'DeferredWhileChoked': 'C11', 'ReservedBacked': 'C12', 'AskOnlyAdvertisedAndLacked': 'C12',
    'NoPanic': 'C12', 'ExtractOnlyComplete': 'C01', 'PickSound': 'C13', 'SlotBound': 'C14', 'ViewAgreement': 'C14', 'KaBound': 'C20', 'HaveStable': 'C12', 'THaveStable': 'C12', 'RotationPolicy': 'C14', 'TypeOK': 'C12',
    'ObsDisk': 'C01', 'ObsBadHandshake': 'C08', 'ObsServe': 'C09', 'ObsRxShape': 'C10', 'ObsTile': 'C10', 'ObsComplete': 'C10',
    'ObsBitfield': 'C11', 'ObsAnnPrefix': 'C11', 'ObsAnnAtRest': 'C11', 'ObsPick': 'C13', 'ObsPickNone': 'C13', 'ObsViewAtRest': 'C14',
    'ObsKeepAlive': 'C20', 'ObsNoAbandon': 'C10', 'ObsBackedOnWire': 'C12',
}


LAST_ACCEPTED = set()     # scenario indexes accepted by the last validate() call


# formulas that state a sentence of more than one property
INV_ALSO = {'NoPanic': ('C02', 'C09', 'C12', 'C06', 'C01'), 'ServedImpliesStored': ('C09',), 'AdvertisedImpliesStored': ('C01',),
            'OwnedImpliesStored': ('C11',), 'ObsNoAbandon': ('C12',), 'ReservedBacked': ('C20',), 'ObsDisk': ('C02',)}


def validate(pid, scns, traces, max_reports=8):
    """TLC trace validation of encoded traces, grouped by geometry. Returns (accepted scenario count,
    problems) where problems = list of dicts {scenario, line, event, kind: 'rejected'|'invariant', inv, ...}."""
    groups = {}
    LAST_ACCEPTED.clear()
    for i, (s, t) in enumerate(zip(scns, traces)):
        groups.setdefault((s.geometry(), ), []).append(i)
    def one_group(item):
        (geo,), idxs = item
        probs, acc, okidx = [], 0, []
        npeers = max(max(len(scns[i].sc['peers']) for i in idxs),
                     max((int(ev['k'][1:]) for i in idxs for ev in traces[i] if ev.get('k', '').startswith('p')), default=1))
        d, mod, cfg = geometry_module(pid, geo, max(npeers, 1))
        todo = list(idxs)
        while todo and len(probs) < max_reports:
            tpath = os.path.join(d, mod + '.ndjson')
            owner = []
            with open(tpath, 'w') as f:
                for i in todo:
                    for ev in traces[i]:
                        f.write(json.dumps(ev) + '\n')
                        owner.append(i)
            res = run_tlc_trace(d, mod, cfg, tpath)
            matched = res['matched']
            if res['inv'] is None and matched == len(owner):
                acc += len(todo)
                okidx.extend(todo)
                break
            # the scenario owning the first unmatched line fails; everything before it was accepted
            bad_line = matched if matched < len(owner) else len(owner) - 1
            bad = owner[bad_line]
            k = todo.index(bad)
            acc += k
            okidx.extend(todo[:k])
            first = sum(len(traces[i]) for i in todo[:k])
            ev = traces[bad][bad_line - first] if bad_line - first < len(traces[bad]) else None
            probs.append({'scenario': bad, 'event_index': bad_line - first, 'event': ev, 'inv': res['inv'],
                          'kind': 'invariant' if res['inv'] else 'rejected', 'tlc_tail': res['tail']})
            todo = todo[k + 1:]
        return acc, probs, okidx

    # geometry groups are independent: validate them in parallel (one single-worker TLC each)
    from concurrent.futures import ThreadPoolExecutor
    problems = []
    accepted = 0
    with ThreadPoolExecutor(max_workers=6) as ex:
        for acc, probs, okidx in ex.map(one_group, list(groups.items())):
            accepted += acc
            problems.extend(probs)
            LAST_ACCEPTED.update(okidx)
    return accepted, problems[:max_reports * 2]


def run_tlc_trace(d, mod, cfg, tpath, cont=False):
    cmd = ['java', '-XX:+UseParallelGC', '-Xmx4g', '-Xss1g', '-Dtlc2.tool.queue.IStateQueue=StateDeque',
           '-DTLA-Library=' + SPEC, '-cp', JAR + ':/opt/veriftools/tla/CommunityModules-deps.jar', 'tlc2.TLC',
           '-workers', '1', '-metadir', os.path.join(d, 'md_' + mod), '-cleanup', '-noGenerateSpecTE', '-config', cfg] + \
          (['-continue'] if cont else []) + [os.path.join(d, mod + '.tla')]
    env = dict(os.environ, TRACE=tpath)
    try:
        p = subprocess.run(cmd, cwd=d, env=env, stdout=subprocess.PIPE, stderr=subprocess.STDOUT, text=True, timeout=1800)
    except subprocess.TimeoutExpired:
        raise ToolError('TLC trace validation timed out')
    out = p.stdout
    m = tlaval.find_printed(out, 'TRACE_MATCHED')
    inv = None
    import re
    if cont:
        names = sorted(set(re.findall(r'Invariant (\w+) is violated', out) + re.findall(r'[Aa]ction property (\w+) is violated', out)
                           + re.findall(r'property (\w+) (?:is|was) violated', out)))
        if not m and not names:
            log(out[-3000:])
            raise ToolError('SwarmObs produced no result (TLC error)')
        where = []
        segs = out.split('Error: ')[1:]
        for j, seg in enumerate(segs):
            mm = re.search(r'(?:Invariant|[Aa]ction property|property) (\w+) (?:is|was) violated', seg.split('\n')[0])
            ls = re.findall(r'/\\ l = (\d+)', seg) or (re.findall(r'/\\ l = (\d+)', segs[j + 1]) if j + 1 < len(segs) else [])
            if mm and not any(w[0] == mm.group(1) for w in where):
                where.append((mm.group(1), int(ls[-1]) if ls else None))
        return {'matched': m[-1][1] if m else None, 'total': m[-1][2] if m else None, 'violated': names, 'where': where, 'tail': out[-2500:], 'out': out}
    mi = re.search(r'Invariant (\w+) is violated', out) or re.search(r'Action property (\w+) is violated', out) \
        or re.search(r'property (\w+) is violated', out)
    if mi:
        inv = mi.group(1)
    if not m:
        if inv:
            # TLC stops at the violation before the postcondition: recover the line from the last state
            ls = re.findall(r'/\\ l = (\d+)', out)
            return {'matched': int(ls[-1]) - 1 if ls else 0, 'inv': inv, 'tail': out[-1500:]}
        log(out[-3000:])
        raise ToolError('SwarmTrace produced no result (TLC error)')
    return {'matched': m[-1][1], 'inv': inv, 'tail': out[-1500:]}
