"""Seeded scenario generators for the full-stack runner (harness/src/bin/simnet.rs).
Every script is a legal input: remote peers may send any frame at any time."""
import random

BLOCK = 16384
GEOS = {
    # name: (piece_length, [file lengths])
    'g4': (16384, [30000, 19252]),            # 4 pieces of one block, last piece 100 bytes, two files
    'g3': (40000, [100000]),                  # 3 pieces: 3 blocks (16384, 16384, 7232), last piece 20000 (2 blocks)
    'g12': (1000, [4000, 0, 7500]),           # 12 pieces (both sides of the end-game limit 10), zero-length file
    'g2': (32868, [50000]),                   # 2 pieces, 3 + 2 blocks
}


def geo(name):
    pl, files = GEOS[name]
    total = sum(files)
    n = (total + pl - 1) // pl
    plens = [min(pl, total - i * pl) for i in range(n)]
    return pl, files, n, plens


def blocks(plen):
    return [(b, min(BLOCK, plen - b)) for b in range(0, plen, BLOCK)]


def peer(i, has=(), serve='none', **kw):
    d = {'addr': '10.0.0.%d:%d' % (i + 1, 6000 + i), 'id': '-XX%04d-%s' % (i, 'abcdefghijkl'), 'has': sorted(has), 'serve': serve}
    d.update(kw)
    return d


def base(gname, peers, steps, tracker=None, pat=3):
    pl, files, n, plens = geo(gname)
    return {'torrent': {'piece_length': pl, 'files': files, 'pat': pat, 'name': 'out'}, 'peers': peers,
            'tracker': tracker or [], 'steps': steps, 'geo': gname}


def hs():
    return {'k': 'Handshake'}


def send(i, *frames, **kw):
    d = {'op': 'send', 'peer': i, 'frames': list(frames)}
    d.update(kw)
    return d


def bf(S):
    return {'k': 'Bitfield', 'set': sorted(S)}


def fr(k, *a, **kw):
    d = {'k': k}
    if a:
        d['a'] = list(a)
    d.update(kw)
    return d


# ------------------------------------------------------------------------------------------
def honest(rng, gname=None, npeers=None):
    """C02: every piece is offered by at least one honest peer that stays; others may leave."""
    gname = gname or rng.choice(['g4', 'g3', 'g12', 'g2'])
    pl, files, n, plens = geo(gname)
    k = npeers or rng.randint(1, 4)
    # distribute pieces: peer 0.. hold random subsets, the union of the 'essential' peers covers everything
    ess = rng.randint(1, k)
    has = [set() for _ in range(k)]
    for p in range(n):
        has[rng.randrange(ess)].add(p)
        for j in range(k):
            if rng.random() < 0.4:
                has[j].add(p)
    peers = [peer(j, has[j], serve='good', lifo=rng.random() < 0.3) for j in range(k)]
    steps = []
    order = list(range(k))
    rng.shuffle(order)
    leavers = [j for j in range(ess, k) if rng.random() < 0.6]
    incoming = {j: rng.random() < 0.6 for j in range(k)}
    outgoing = [j for j in range(k) if not incoming[j]]
    tracker = []
    if outgoing:
        for j in outgoing:
            steps.append({'op': 'listen', 'peer': j})
        tracker = [{'k': 'peers', 'peers': outgoing}]
    else:
        tracker = [{'k': 'peers', 'peers': []}]
    steps.append({'op': 'advance', 'ms': 50})
    for j in order:
        if incoming[j]:
            steps.append({'op': 'connect', 'peer': j})
        frames = [hs()]
        if rng.random() < 0.8 or not has[j]:
            frames.append(bf(has[j]))
            late = []
        else:
            late = [fr('Have', p) for p in sorted(has[j])]
            rng.shuffle(late)
        # segmentation of the first write
        if rng.random() < 0.5:
            steps.append(send(j, *frames, cuts=sorted(rng.sample(range(1, 70), rng.randint(1, 4)))))
        else:
            for f in frames:
                steps.append(send(j, f))
        if rng.random() < 0.3:
            steps.append({'op': 'advance', 'ms': rng.choice([10, 500, 3000])})
        steps.append(send(j, fr('Unchoke')))
        for f in late:
            steps.append(send(j, f))
        if j in leavers and rng.random() < 0.5:
            steps.append({'op': 'advance', 'ms': rng.choice([1, 200])})
            steps.append({'op': 'close', 'peer': j})
            leavers.remove(j)
    for j in leavers:
        steps.append({'op': 'close', 'peer': j})
    steps.append({'op': 'advance', 'ms': 25000, 'slice': 1000})
    sc = base(gname, peers, steps, tracker, pat=rng.randrange(251))
    sc['family'] = 'honest'
    sc['essential'] = list(range(ess))
    return sc


def adversarial(rng, gname=None, kinds=None, npeers=None, nframes=None):
    """C01/C08/C09/C12: peers send frames from a menu in random order (repeated, out of order),
    sometimes honest data, sometimes corrupt, sometimes disconnect."""
    gname = gname or rng.choice(['g4', 'g3', 'g2'])
    pl, files, n, plens = geo(gname)
    k = npeers or rng.randint(1, 3)
    has = [set(rng.sample(range(n), rng.randint(1, n))) for _ in range(k)]
    modes = [rng.choice(['good', 'good', 'corrupt', 'none']) for _ in range(k)]
    peers = [peer(j, has[j], serve=modes[j], corrupt=sorted(rng.sample(sorted(has[j]), max(1, len(has[j]) // 2))),
                  lifo=rng.random() < 0.3, hold=rng.choice([0, 0, 1])) for j in range(k)]
    kinds = kinds or ['Unchoke', 'Unchoke', 'Choke', 'Have', 'Bitfield', 'Interested', 'NotInterested', 'Piece', 'PieceBad', 'PieceOdd',
                      'Request', 'KeepAlive', 'Cancel', 'advance', 'serve']
    steps = [{'op': 'advance', 'ms': 20}]
    alive = set()
    for j in range(k):
        steps.append({'op': 'connect', 'peer': j})
        alive.add(j)
        if rng.random() < 0.9:
            steps.append(send(j, hs()))
        if rng.random() < 0.7:
            steps.append(send(j, bf(has[j])))
    for _ in range(nframes or rng.randint(6, 25)):
        if not alive:
            break
        j = rng.choice(sorted(alive))
        kd = rng.choice(kinds)
        if kd == 'advance':
            steps.append({'op': 'advance', 'ms': rng.choice([1, 100, 2000])})
        elif kd == 'serve':
            steps.append({'op': 'serve', 'peer': j, 'mode': rng.choice(['good', 'corrupt', 'none'])})
        elif kd == 'Have':
            steps.append(send(j, fr('Have', rng.randrange(n))))
        elif kd == 'Bitfield':
            steps.append(send(j, bf(rng.sample(range(n), rng.randint(0, n)))))
        elif kd in ('Piece', 'PieceBad', 'PieceOdd'):
            p = rng.randrange(n)
            b, l = rng.choice(blocks(plens[p]))
            if kd == 'PieceOdd':
                b, l = rng.choice([(b + 1, max(0, l - 1)), (b, max(0, l - 1)), (0, 0), (b, l)])
            steps.append(send(j, fr('Piece', p, b, l, bad=(kd == 'PieceBad'))))
        elif kd == 'Request':
            p = rng.randrange(n + 1)
            pl_ = plens[p] if p < n else 100
            b, l = rng.choice([(0, min(pl_, 100)), (0, 0), (0, 16384), (0, 16385), (max(0, pl_ - 10), 10), (max(0, pl_ - 10), 11),
                               (4294967295, 1), (4294967200, 96), (0, pl_)])
            steps.append(send(j, fr('Request', p, b, l)))
        elif kd == 'Cancel':
            steps.append(send(j, fr('Cancel', 0, 0, 1)))
        elif kd == 'close':
            steps.append({'op': 'close', 'peer': j})
            alive.discard(j)
        else:
            steps.append(send(j, fr(kd)))
    if rng.random() < 0.5 and alive:
        j = rng.choice(sorted(alive))
        steps.append({'op': 'close', 'peer': j})
    steps.append({'op': 'advance', 'ms': 1500})
    sc = base(gname, peers, steps, [{'k': 'peers', 'peers': []}], pat=rng.randrange(251))
    sc['family'] = 'adversarial'
    return sc
