"""Seeded scenario generators for the full-stack runner (harness/src/bin/simnet.rs).
Every script is a legal input: remote peers may send any frame at any time."""
import random

BLOCK = 16384
GEOS = {
    # name: (piece_length, [file lengths])
    'g4': (16384, [30000, 19252]),            # 4 pieces of one block, last piece 100 bytes, two files
    'g3': (40000, [100000]),                  # 3 pieces: 3 blocks (16384, 16384, 7232), last piece 20000 (2 blocks)
    'g12': (1000, [4000, 0, 7500]),           # 12 pieces (both sides of the end-game limit 10), zero-length file
    'g2': (32868, [50000]),                   # 2 pieces, 3 + 2 blocks
    'm21': (20000, [25000]),                  # 2 pieces with 2 and 1 blocks: the geometry of the model-generated scripts
}


def geo(name):
    pl, files = GEOS[name]
    total = sum(files)
    n = (total + pl - 1) // pl
    plens = [min(pl, total - i * pl) for i in range(n)]
    return pl, files, n, plens


def blocks(plen):
    return [(b, min(BLOCK, plen - b)) for b in range(0, plen, BLOCK)]


def peer(i, has=(), serve='none', **kw):
    d = {'addr': '10.0.0.%d:%d' % (i + 1, 6000 + i), 'id': '-XX%04d-%s' % (i, 'abcdefghijkl'), 'has': sorted(has), 'serve': serve}
    d.update(kw)
    return d


def base(gname, peers, steps, tracker=None, pat=3):
    pl, files, n, plens = geo(gname)
    return {'torrent': {'piece_length': pl, 'files': files, 'pat': pat, 'name': 'out'}, 'peers': peers,
            'tracker': tracker or [], 'steps': steps, 'geo': gname}


def hs():
    return {'k': 'Handshake'}


def send(i, *frames, **kw):
    d = {'op': 'send', 'peer': i, 'frames': list(frames)}
    d.update(kw)
    return d


def bf(S):
    return {'k': 'Bitfield', 'set': sorted(S)}


def fr(k, *a, **kw):
    d = {'k': k}
    if a:
        d['a'] = list(a)
    d.update(kw)
    return d


# ------------------------------------------------------------------------------------------
def honest(rng, gname=None, npeers=None):
    """C02: every piece is offered by at least one honest peer that stays; others may leave."""
    gname = gname or rng.choice(['g4', 'g3', 'g12', 'g2'])
    pl, files, n, plens = geo(gname)
    k = npeers or rng.randint(1, 4)
    # distribute pieces: peer 0.. hold random subsets, the union of the 'essential' peers covers everything
    ess = rng.randint(1, k)
    has = [set() for _ in range(k)]
    for p in range(n):
        has[rng.randrange(ess)].add(p)
        for j in range(k):
            if rng.random() < 0.4:
                has[j].add(p)
    peers = [peer(j, has[j], serve='good', lifo=rng.random() < 0.3) for j in range(k)]
    steps = []
    order = list(range(k))
    rng.shuffle(order)
    leavers = [j for j in range(ess, k) if rng.random() < 0.6]
    incoming = {j: rng.random() < 0.6 for j in range(k)}
    outgoing = [j for j in range(k) if not incoming[j]]
    tracker = []
    if outgoing:
        for j in outgoing:
            peers[j]['listen'] = True
        tracker = [{'k': 'peers', 'peers': outgoing}]
    else:
        tracker = [{'k': 'peers', 'peers': []}]
    steps.append({'op': 'advance', 'ms': 50})
    for j in order:
        if incoming[j]:
            steps.append({'op': 'connect', 'peer': j})
        frames = [hs()]
        if rng.random() < 0.8 or not has[j]:
            frames.append(bf(has[j]))
            late = []
        else:
            late = [fr('Have', p) for p in sorted(has[j])]
            rng.shuffle(late)
        # segmentation of the first write
        if rng.random() < 0.5:
            steps.append(send(j, *frames, cuts=sorted(rng.sample(range(1, 70), rng.randint(1, 4)))))
        else:
            for f in frames:
                steps.append(send(j, f))
        if rng.random() < 0.3:
            steps.append({'op': 'advance', 'ms': rng.choice([10, 500, 3000])})
        # a peer that sent no bitfield announces everything it holds with Have messages before it unchokes us
        # (the client drops a connection that has nothing more to offer, so later announcements would be lost)
        if late:
            steps.append(send(j, *late))
        if rng.random() < 0.25:
            # changes its mind at once: the requests we sent are never answered, we are unchoked again later
            steps.append(send(j, fr('Unchoke'), fr('Choke')))
            steps.append({'op': 'advance', 'ms': rng.choice([5, 400])})
        steps.append(send(j, fr('Unchoke')))
        # an honest peer may choke us and unchoke us again
        if rng.random() < 0.35:
            steps.append({'op': 'advance', 'ms': rng.choice([1, 3, 10])})
            steps.append(send(j, fr('Choke')))
            steps.append({'op': 'advance', 'ms': rng.choice([1, 100, 1500])})
            steps.append(send(j, fr('Unchoke')))
        if j in leavers and rng.random() < 0.5:
            steps.append({'op': 'advance', 'ms': rng.choice([1, 200])})
            steps.append({'op': 'close', 'peer': j})
            leavers.remove(j)
    for j in leavers:
        steps.append({'op': 'close', 'peer': j})
    steps.append({'op': 'advance', 'ms': 25000, 'slice': 1000})
    sc = base(gname, peers, steps, tracker, pat=rng.randrange(251))
    sc['family'] = 'honest'
    sc['essential'] = list(range(ess))
    return sc


def adversarial(rng, gname=None, kinds=None, npeers=None, nframes=None):
    """C01/C08/C09/C12: peers send frames from a menu in random order (repeated, out of order),
    sometimes honest data, sometimes corrupt, sometimes disconnect."""
    gname = gname or rng.choice(['g4', 'g3', 'g2'])
    pl, files, n, plens = geo(gname)
    k = npeers or rng.randint(1, 3)
    has = [set(rng.sample(range(n), rng.randint(1, n))) for _ in range(k)]
    modes = [rng.choice(['good', 'good', 'corrupt', 'none']) for _ in range(k)]
    peers = [peer(j, has[j], serve=modes[j], corrupt=sorted(rng.sample(sorted(has[j]), max(1, len(has[j]) // 2))),
                  lifo=rng.random() < 0.3, hold=rng.choice([0, 0, 1])) for j in range(k)]
    kinds = kinds or ['Unchoke', 'Unchoke', 'Choke', 'Have', 'Bitfield', 'Interested', 'NotInterested', 'Piece', 'PieceBad', 'PieceOdd',
                      'Request', 'KeepAlive', 'Cancel', 'advance', 'serve']
    steps = [{'op': 'advance', 'ms': 20}]
    alive = set()
    for j in range(k):
        steps.append({'op': 'connect', 'peer': j})
        alive.add(j)
        if rng.random() < 0.9:
            steps.append(send(j, hs()))
        if rng.random() < 0.7:
            steps.append(send(j, bf(has[j])))
    for _ in range(nframes or rng.randint(6, 25)):
        if not alive:
            break
        j = rng.choice(sorted(alive))
        kd = rng.choice(kinds)
        if kd == 'advance':
            steps.append({'op': 'advance', 'ms': rng.choice([1, 100, 2000])})
        elif kd == 'serve':
            steps.append({'op': 'serve', 'peer': j, 'mode': rng.choice(['good', 'corrupt', 'none'])})
        elif kd == 'Have':
            steps.append(send(j, fr('Have', rng.randrange(n))))
        elif kd == 'Bitfield':
            steps.append(send(j, bf(rng.sample(range(n), rng.randint(0, n)))))
        elif kd in ('Piece', 'PieceBad', 'PieceOdd'):
            p = rng.randrange(n)
            b, l = rng.choice(blocks(plens[p]))
            if kd == 'PieceOdd':
                b, l = rng.choice([(b + 1, max(0, l - 1)), (b, max(0, l - 1)), (0, 0), (b, l)])
            steps.append(send(j, fr('Piece', p, b, l, bad=(kd == 'PieceBad'))))
        elif kd == 'Request':
            p = rng.randrange(n + 1)
            pl_ = plens[p] if p < n else 100
            b, l = rng.choice([(0, min(pl_, 100)), (0, 0), (0, 16384), (0, 16385), (max(0, pl_ - 10), 10), (max(0, pl_ - 10), 11),
                               (4294967295, 1), (4294967200, 96), (0, pl_)])
            steps.append(send(j, fr('Request', p, b, l)))
        elif kd == 'Cancel':
            steps.append(send(j, fr('Cancel', 0, 0, 1)))
        elif kd == 'close':
            steps.append({'op': 'close', 'peer': j})
            alive.discard(j)
        else:
            steps.append(send(j, fr(kd)))
    if rng.random() < 0.5 and alive:
        j = rng.choice(sorted(alive))
        steps.append({'op': 'close', 'peer': j})
    steps.append({'op': 'advance', 'ms': 1500})
    sc = base(gname, peers, steps, [{'k': 'peers', 'peers': []}], pat=rng.randrange(251))
    sc['family'] = 'adversarial'
    return sc


def upload(rng, gname=None):
    """C09/C11: download from an honest seeder, then a leecher handshakes (gets our bitfield), gets
    unchoked, and requests all kinds of ranges; later it is choked by a rotation and asks again."""
    gname = gname or rng.choice(['g4', 'g2', 'g3'])
    pl, files, n, plens = geo(gname)
    own = set(range(n)) if rng.random() < 0.6 else set(rng.sample(range(n), rng.randint(1, n)))
    peers = [peer(0, own, serve='good'), peer(1, set(), serve='none'), peer(2, set(), serve='none')]
    steps = [{'op': 'connect', 'peer': 0}, send(0, hs(), bf(own)), send(0, fr('Unchoke')), {'op': 'advance', 'ms': 300}]
    nle = rng.choice([1, 1, 2])
    for L in range(1, 1 + nle):
        steps += [{'op': 'connect', 'peer': L}, send(L, hs())]
        if rng.random() < 0.8:
            steps.append(send(L, bf(set())))           # makes the client unchoke us (slots permitting)
        if rng.random() < 0.8:
            steps.append(send(L, fr('Interested')))
    def req(L):
        p = rng.choice(sorted(own) + [rng.randrange(n), n, n + 5])
        plen = plens[p] if p < n else 1000
        b, l = rng.choice([(0, min(plen, 100)), (0, 0), (0, min(plen, 16384)), (0, 16385), (max(0, plen - 10), 10), (max(0, plen - 10), 11),
                           (4294967295, 1), (4294967200, 96), (4294967295, 4294967295), (plen, 0), (plen, 1), (1, min(plen - 1, 16384)),
                           (0, plen), (0, min(plen + 1, 16384)), (0, 16384), (1, 16384)])
        return send(L, fr('Request', p, b, l))
    if len(own) < n:
        # a well-formed request for a piece we hold (served, the piece stays loaded), then one for a piece we lack,
        # with a range that would fit the loaded piece: nothing may be sent for it
        i, j = rng.choice(sorted(own)), rng.choice(sorted(set(range(n)) - own))
        ln = min(plens[i], plens[j], rng.choice([1, 100, 16384]))
        steps += [send(1, fr('Request', i, 0, ln)), send(1, fr('Request', j, 0, ln)), send(1, fr('Request', i, 0, ln))]
    for _ in range(rng.randint(3, 10)):
        steps.append(req(rng.randint(1, nle)))
    if rng.random() < 0.5 and nle == 1:
        # a fresh leecher is unchoked on its bitfield, never declares interest, loads a piece, loses the slot
        # through the next rotation (not interested) and asks for the same (already loaded) piece again
        L = 2
        p = rng.choice(sorted(own))
        ln = min(plens[p], rng.choice([10, 16384]))
        steps += [{'op': 'connect', 'peer': L}, send(L, hs()), send(L, bf(set())), send(L, fr('Request', p, 0, ln)),
                  {'op': 'advance', 'ms': 31000, 'slice': 1000},
                  send(L, fr('Request', p, 0, ln)), send(L, fr('Request', p, 0, 1))]
    elif rng.random() < 0.7:
        # let the choke rotation run: stats need two 10 s ticks, then the 10 s rotation timer
        L = rng.randint(1, nle)
        if rng.random() < 0.6:
            steps.append(send(L, fr('NotInterested')))
        steps.append({'op': 'advance', 'ms': rng.choice([31000, 41000]), 'slice': 1000})
        for _ in range(rng.randint(1, 4)):
            steps.append(req(L))
        if rng.random() < 0.5:
            steps.append(send(L, fr('Interested')))
            steps.append({'op': 'advance', 'ms': 21000, 'slice': 1000})
            steps.append(req(L))
    steps.append({'op': 'advance', 'ms': 500})
    sc = base(gname, peers, steps, [{'k': 'peers', 'peers': []}], pat=rng.randrange(251))
    sc['family'] = 'upload'
    return sc


def choking(rng):
    """C14: many peers, interest flips, chosen rate vectors (ties), bitfield bursts, several rotations."""
    gname = 'g4'
    pl, files, n, plens = geo(gname)
    k = rng.choice([3, 6, 12, 13, 14, 14])
    peers = [peer(j, set(rng.sample(range(n), rng.randint(0, n))), serve='none') for j in range(k)]
    steps = [{'op': 'advance', 'ms': 10}]
    for j in range(k):
        # (the listener refuses new connections while 4 connected peers have nothing we want, so each
        #  peer shows its pieces before the next one connects)
        if not peers[j]['has'] and rng.random() < 0.8:
            peers[j]['has'] = [rng.randrange(n)]
        steps.append({'op': 'connect', 'peer': j})
        steps.append(send(j, hs()))
        steps.append({'op': 'rates', 'peer': j, 'dl': rng.choice([0, 1, 5, 5, 9]), 'ul': rng.choice([0, 2, 2, 7])})
        if rng.random() < 0.9:
            steps.append(send(j, bf(peers[j]['has'])))
        if rng.random() < 0.6:
            steps.append(send(j, fr('Interested')))
    for rnd in range(rng.randint(3, 5)):
        steps.append({'op': 'advance', 'ms': 10000, 'slice': 2500})
        for _ in range(rng.randint(0, 4)):
            j = rng.randrange(k)
            what = rng.choice(['Interested', 'NotInterested', 'rates', 'close', 'Bitfield'])
            if what == 'rates':
                steps.append({'op': 'rates', 'peer': j, 'dl': rng.choice([0, 1, 5, 9]), 'ul': rng.choice([0, 2, 7])})
            elif what == 'close':
                if rng.random() < 0.3:
                    steps.append({'op': 'close', 'peer': j})
            elif what == 'Bitfield':
                steps.append(send(j, bf(peers[j]['has'])))
            else:
                steps.append(send(j, fr(what)))
    steps.append({'op': 'advance', 'ms': 300})
    sc = base(gname, peers, steps, [{'k': 'peers', 'peers': []}], pat=rng.randrange(251))
    sc['family'] = 'choking'
    return sc


KA = 120000


def keepalive(rng):
    """C20: arrival patterns relative to the 120 s keep-alive timer."""
    gname = 'g4'
    pl, files, n, plens = geo(gname)
    k = rng.randint(1, 3)
    peers = [peer(j, {0, 1}, serve='none') for j in range(k)]
    steps = []
    plan = []
    for j in range(k):
        steps.append({'op': 'connect', 'peer': j})
        mode = rng.choice(['silent', 'silent_after_hs', 'ka_only', 'live', 'live_then_silent', 'edge', 'fetching_silent', 'fetching_ka', 'late_hs'])
        plan.append(mode)
        if mode not in ('silent', 'late_hs'):
            steps.append(send(j, hs()))
        if mode.startswith('fetching'):
            # falls silent (or sends nothing but keep-alives) while a piece is being fetched from it:
            # the connection must be dropped all the same and the reservation released
            steps += [send(j, bf({0, 1})), send(j, fr('Unchoke'))]
    # timeline in multiples of a quarter interval
    t = 0
    q = KA // 4
    horizon = rng.choice([13, 17]) * q
    sent_late = {}
    live_kinds = ['Have', 'Interested', 'NotInterested', 'Choke', 'Unchoke', 'Cancel', 'Bitfield', 'Request']
    while t < horizon:
        dt = rng.choice([q, q, 2 * q, 3 * q, q - 1, q + 1, 4 * q - 2])
        steps.append({'op': 'advance', 'ms': dt, 'slice': 5000})
        t += dt
        for j in range(k):
            m = plan[j]
            if m == 'late_hs' and t > 2 * KA and not sent_late.get(j):
                # the first message of this connection arrives after two silent intervals: it counts as life
                sent_late[j] = True
                steps.append(send(j, hs()))
            if m in ('ka_only', 'fetching_ka') and rng.random() < 0.8:
                steps.append(send(j, fr('KeepAlive')))
            if m == 'live' or (m == 'live_then_silent' and t < horizon // 2) or (m == 'edge' and rng.random() < 0.5):
                kd = rng.choice(live_kinds)
                f = fr('Have', rng.randrange(n)) if kd == 'Have' else bf({0, 1}) if kd == 'Bitfield' else \
                    fr('Request', 0, 0, 10) if kd == 'Request' else fr('Cancel', 0, 0, 10) if kd == 'Cancel' else fr(kd)
                steps.append(send(j, f))
    steps.append({'op': 'advance', 'ms': 100})
    sc = base(gname, peers, steps, [{'k': 'peers', 'peers': []}], pat=rng.randrange(251))
    sc['family'] = 'keepalive'
    sc['plan'] = plan
    return sc


def handshakes(rng):
    """C08: handshakes of every kind at any point of a message history, incoming and outgoing, with
    a seeded store so that piece data could actually be sent."""
    gname = rng.choice(['g4', 'g2'])
    pl, files, n, plens = geo(gname)
    peers = [peer(0, set(range(n)), serve='good'), peer(1, set(), serve='none'), peer(2, set(), serve='none')]
    peers[2]['listen'] = True
    # the id the tracker announces for the peer we dial need not be text; a wrong id may differ from it in one byte only
    binid = b'-XX0002-' + bytes([0xff, 0x80, 0xfe, 0x00, 0xc3, 0x28, 0x41, 0xf0, 0x9f, 0x98, 0x80, 0x7f])
    if rng.random() < 0.6:
        peers[2]['id_hex'] = binid.hex()
    steps = []
    seeded = rng.random() < 0.7
    if seeded:
        steps += [{'op': 'connect', 'peer': 0}, send(0, hs(), bf(range(n))), send(0, fr('Unchoke')), {'op': 'advance', 'ms': 300}]
    other = '00' * 20
    wrong_id = ('-YY9999-' + 'z' * 12).encode().hex()
    for j in (1, 2):
        if j == 1:
            steps.append({'op': 'connect', 'peer': 1})
        # (peer 2 is listed by the tracker: the client connects to it right at the start)
        kind = rng.choice(['good', 'badhash', 'badid', 'badpstr', 'never', 'late', 'twice', 'short'])
        pre = []
        for _ in range(rng.randint(0, 2) if kind in ('late', 'never', 'badhash') else 0):
            pre.append(rng.choice([bf(set()), fr('Interested'), fr('Request', 0, 0, 10), fr('Have', 0), fr('Unchoke')]))
        for f in pre:
            steps.append(send(j, f))
        h = hs()
        if kind == 'badhash':
            h['ih'] = other
        if kind == 'badid':
            h['id'] = wrong_id
            if j == 2 and 'id_hex' in peers[2] and rng.random() < 0.7:
                near = bytearray(binid)
                near[rng.choice([8, 9, 10])] ^= 0x01          # 0xff -> 0xfe, 0x80 -> 0x81, 0xfe -> 0xff
                h['id'] = bytes(near).hex()
        if kind == 'badpstr':
            h['pstr'] = b'BitTorrent protocoL'.hex()
        if kind == 'short':
            steps.append(send(j, {'k': 'Raw', 'hex': '13426974546f7272'}))
        elif kind != 'never':
            steps.append(send(j, h))
        if kind == 'twice':
            h2 = hs()
            r = rng.random()
            if r < 0.4:
                h2['ih'] = other
            elif r < 0.7:
                h2['id'] = wrong_id
            steps.append(send(j, h2))
        # whatever happened, the peer now behaves like a leecher
        steps.append(send(j, bf(set())))
        steps.append(send(j, fr('Interested')))
        steps.append(send(j, fr('Request', 0, 0, min(100, plens[0]))))
    steps.append({'op': 'advance', 'ms': 200})
    sc = base(gname, peers, steps, [{'k': 'peers', 'peers': [2]}], pat=rng.randrange(251))
    sc['family'] = 'handshakes'
    return sc


def malformed(rng):
    """C06 at connection-task level: after a handshake the peer sends something fatal (wrong length
    prefix, oversized frame, garbage) or closes inside a frame; the task must end at that instant."""
    gname = 'g4'
    pl, files, n, plens = geo(gname)
    peers = [peer(0, {0, 1}, serve='none'), peer(1, {0}, serve='none')]
    steps = [{'op': 'connect', 'peer': 0}, send(0, hs()), {'op': 'connect', 'peer': 1}, send(1, hs())]
    fatal = rng.choice(['0000000200ff', '00000004040000', '0000000c06' + '00' * 11, '000000080700000000000000', '0001000107aabb',
                        '00010001090000', 'ffffffff07', 'fffefdfcfbfa', '0001000002', 'trunc'])
    pre = [rng.choice([fr('Have', 1), fr('Interested'), {'k': 'Raw', 'hex': '0000000109'}, {'k': 'Raw', 'hex': '000000041401020300000000'},
                       fr('KeepAlive')]) for _ in range(rng.randint(0, 3))]
    for f in pre:
        steps.append(send(0, f))
    if fatal == 'trunc':
        steps.append(send(0, {'k': 'Raw', 'hex': rng.choice(['00000005', '0000000504', '000000050400', '00', '0000000d060000'])}))
        steps.append({'op': 'close', 'peer': 0})
    else:
        cuts = sorted(rng.sample(range(1, len(fatal) // 2), min(len(fatal) // 2 - 1, rng.randint(0, 2)))) if len(fatal) > 4 else []
        steps.append(send(0, {'k': 'Raw', 'hex': fatal}, cuts=cuts))
        if rng.random() < 0.5:
            steps.append(send(0, {'k': 'Raw', 'hex': '00000000' * rng.choice([1, 50, 3000])}))   # flood after the fatal frame
    steps.append(send(1, fr('Interested')))
    steps.append({'op': 'advance', 'ms': 50})
    sc = base(gname, peers, steps, [], pat=rng.randrange(251))
    sc['family'] = 'malformed'
    sc['fatal'] = fatal
    return sc


def rotation_race(rng):
    """C14: a (repeated) bitfield whose command reaches the manager in the same poll as the rotation
    timer: the manager may handle either first (found by TLC on Swarm.tla as a ViewAgreement race)."""
    n = rng.choice([1, 2, 3])
    peers = [peer(j, {0}, serve='none') for j in range(n)]
    steps = []
    for j in range(n):
        steps += [{'op': 'connect', 'peer': j}, send(j, hs()), send(j, bf({0}))]
        if rng.random() < 0.4:
            steps.append(send(j, fr('Interested')))
    tick = rng.choice([30000, 40000])
    steps.append({'op': 'advance', 'ms': tick - 5000, 'slice': 1000})
    steps.append({'op': 'advance_to', 'ms': tick - rng.choice([1, 2, 3]), 'scan': False})
    j = rng.randrange(n)
    steps.append({'op': 'race', 'peer': j, 'frames': [rng.choice([bf({0}), bf({0, 1}), fr('NotInterested'), fr('Interested')])], 'ms': 4, 'scan': False})
    steps.append({'op': 'advance', 'ms': 11000, 'slice': 1000})
    sc = base('g4', peers, steps, [{'k': 'peers', 'peers': []}])
    sc['family'] = 'rotation_race'
    return sc


def tracker(rng, nfail=None, must=()):
    """C19: a run of failed/malformed announces followed by a good one that lists a peer; meanwhile
    an already connected peer keeps talking to the client."""
    gname = 'g4'
    pl, files, n, plens = geo(gname)
    nfail = rng.choice([0, 1, 2, 5, 63, 64, 65, 66, 120]) if nfail is None else nfail
    kinds = [{'k': 'refused'}, {'k': 'status', 'code': 500}, {'k': 'status', 'code': 404}, {'k': 'body', 'hex': b'garbage'.hex()},
             {'k': 'body', 'hex': b'd14:failure reason4:nopee'.hex()}, {'k': 'body', 'hex': b'd8:intervali5ee'.hex()}, {'k': 'body', 'hex': ''},
             # HTTP error whose body is a well-formed reply listing somebody else: still a failed announce
             {'k': 'status', 'code': 503, 'hex': b'd8:intervali1800e5:peersld2:ip8:10.9.9.97:peer id20:-ZZ0000-decoydecoyde4:porti7777eeee'.hex()},
             {'k': 'body', 'hex': b'd14:failure reason4:nope8:intervali1800e5:peersld2:ip8:10.9.9.97:peer id20:-ZZ0000-decoydecoyde4:porti7777eeee'.hex()}]
    fails = [rng.choice(kinds) for _ in range(nfail)]
    for i, mk in enumerate(must):
        if fails:
            fails[(i * 7 + rng.randrange(len(fails))) % len(fails)] = kinds[mk]
    outcomes = fails + [{'k': 'peers', 'peers': [1]}]
    peers = [peer(0, {0, 1}, serve='none'), peer(1, set(range(n)), serve='good', listen=True)]
    steps = [{'op': 'connect', 'peer': 0}, send(0, hs(), bf({0, 1}))]
    t = 0
    horizon = nfail * 1000 + 3000
    while t < horizon:
        dt = rng.choice([300, 700, 1000, 1500]) if nfail < 80 else rng.choice([1500, 3000])
        steps.append({'op': 'advance', 'ms': dt, 'slice': 500, 'scan': False})
        t += dt
        steps.append(send(0, rng.choice([fr('Interested'), fr('NotInterested'), fr('Have', rng.randrange(n)), fr('Choke')]), scan=False))
    # whatever the retry delays are: wait until the transport has seen every scripted announce
    steps.append({'op': 'await_announces', 'peer': 0, 'count': nfail + 1, 'cap_ms': 4200000, 'scan': False})
    steps.append({'op': 'advance', 'ms': 200, 'scan': False})
    # the listed peer answers the client's handshake and serves
    steps.append(send(1, hs(), bf(range(n))))
    steps.append(send(1, fr('Unchoke')))
    steps.append({'op': 'advance', 'ms': 2000})
    sc = base(gname, peers, steps, outcomes, pat=rng.randrange(251))
    sc['family'] = 'tracker'
    sc['nfail'] = nfail
    return sc



def from_model(script, idx=0):
    """Specification -> implementation: a behaviour of MC_SwarmGen.tla (the environment's moves recorded in the
    history variable `script`) turned into a simnet scenario. Peers a, b -> 0, 1; pieces and blocks 1-based -> wire values."""
    gname = 'm21'
    pl, files, n, plens = geo(gname)
    names = {}
    peers = []
    steps = []
    for mv in script:
        k = mv[1]
        if k not in names:
            names[k] = len(peers)
            peers.append(peer(len(peers), set(range(n)), serve='none'))
        j = names[k]
        if mv[0] == 'conn':
            steps.append({'op': 'connect', 'peer': j})
            continue
        kind = mv[2]
        if kind == 'Bad':
            steps.append(send(j, {'k': 'Raw', 'hex': 'fffefdfcfbfa'}))
        elif kind == 'Early':
            steps.append(send(j, fr('Interested')))
        elif kind == 'Handshake':
            steps.append(send(j, hs()))
        elif kind == 'Have':
            steps.append(send(j, fr('Have', mv[3] - 1)))
        elif kind == 'Bitfield':
            steps.append(send(j, bf({p - 1 for p in mv[3]})))
        elif kind == 'Request':
            p, ok = mv[3] - 1, mv[4]
            steps.append(send(j, fr('Request', p, 0, 10 if ok else 16385)))
        elif kind == 'Piece':
            p, b, good = mv[3] - 1, mv[4], mv[5]
            begin, ln = blocks(plens[p])[b - 1]
            steps.append(send(j, fr('Piece', p, begin, ln, bad=not good)))
        elif kind == 'Cancel':
            steps.append(send(j, fr('Cancel', 0, 0, 1)))
        else:
            steps.append(send(j, fr(kind)))
    steps.append({'op': 'advance', 'ms': 200})
    sc = base(gname, peers, steps, [{'k': 'peers', 'peers': []}], pat=(idx * 37) % 251)
    sc['family'] = 'model'
    return sc


def midflight(rng):
    """C11/C01: a peer completes its handshake (and gets our bitfield) while pieces are being fetched
    from another peer that answers late; only verified, stored pieces may be advertised."""
    gname = rng.choice(['g4', 'g3', 'g2'])
    pl, files, n, plens = geo(gname)
    peers = [peer(0, set(range(n)), serve='none', hold=0), peer(1, set(rng.sample(range(n), rng.randint(0, n))), serve='none'), peer(2, set(), serve='none')]
    steps = [{'op': 'connect', 'peer': 0}, send(0, hs(), bf(range(n))), send(0, fr('Unchoke'))]
    # peer 0 has been asked for a piece but does not answer yet
    for j in (1, 2):
        steps += [{'op': 'connect', 'peer': j}, send(j, hs())]
        if rng.random() < 0.5:
            steps.append(send(j, bf(peers[j]['has'])))
        if rng.random() < 0.4:
            steps += [{'op': 'serve', 'peer': 0, 'mode': 'good'}, {'op': 'advance', 'ms': 5}, {'op': 'serve', 'peer': 0, 'mode': 'none'}]
    steps += [{'op': 'serve', 'peer': 0, 'mode': 'good'}, {'op': 'advance', 'ms': 300}]
    # a late comer sees the complete bitfield
    peers.append(peer(3, set(), serve='none'))
    steps += [{'op': 'connect', 'peer': 3}, send(3, hs()), {'op': 'advance', 'ms': 50}]
    sc = base(gname, peers, steps, [{'k': 'peers', 'peers': []}], pat=rng.randrange(251))
    sc['family'] = 'midflight'
    return sc


def reassign(rng):
    """C10/C12/C13: the manager paths that (re)assign pieces: repeated bitfields, Have while a piece is
    in flight, choke/unchoke cycles, with more than ten pieces missing (no end game) or fewer."""
    gname = rng.choice(['g12', 'g12', 'g4'])
    pl, files, n, plens = geo(gname)
    k = rng.randint(1, 3)
    peers = [peer(j, set(range(n)), serve=rng.choice(['none', 'good']), hold=rng.choice([0, 1])) for j in range(k)]
    steps = []
    for j in range(k):
        first = set(rng.sample(range(n), rng.randint(1, max(1, n // 2))))
        steps += [{'op': 'connect', 'peer': j}, send(j, hs(), bf(first)), send(j, fr('Unchoke'))]
        for _ in range(rng.randint(2, 6)):
            what = rng.choice(['rebf_none', 'rebf', 'have', 'choke', 'unchoke', 'have', 'serve', 'adv'])
            if what == 'rebf_none':
                steps.append(send(j, bf(set())))
            elif what == 'rebf':
                steps.append(send(j, bf(rng.sample(range(n), rng.randint(0, n)))))
            elif what == 'have':
                steps.append(send(j, fr('Have', rng.randrange(n))))
            elif what == 'choke':
                steps.append(send(j, fr('Choke')))
            elif what == 'unchoke':
                steps.append(send(j, fr('Unchoke')))
            elif what == 'serve':
                steps.append({'op': 'serve', 'peer': j, 'mode': rng.choice(['good', 'none'])})
            else:
                steps.append({'op': 'advance', 'ms': rng.choice([1, 50])})
    steps.append({'op': 'advance', 'ms': 300})
    sc = base(gname, peers, steps, [{'k': 'peers', 'peers': []}], pat=rng.randrange(251))
    sc['family'] = 'reassign'
    return sc


def endgame10(rng):
    """C13: exactly ten pieces missing (not yet end game): a piece reserved for a silent peer must not be
    handed to the others."""
    gname = 'g10'
    pl, files, n, plens = geo(gname)
    k = rng.randint(5, 8)
    peers = [peer(j, set(range(n)), serve='none') for j in range(k)]
    steps = []
    for j in range(k):
        steps += [{'op': 'connect', 'peer': j}, send(j, hs(), bf(range(n))), send(j, fr('Unchoke'))]
    # now one piece is completed: nine remain, end game begins; more unchokes re-pick
    steps += [{'op': 'serve', 'peer': 0, 'mode': 'good'}, {'op': 'advance', 'ms': 20}, {'op': 'serve', 'peer': 0, 'mode': 'none'}]
    for j in range(1, k):
        if rng.random() < 0.5:
            steps += [send(j, fr('Choke')), send(j, fr('Unchoke'))]
    steps.append({'op': 'advance', 'ms': 100})
    sc = base(gname, peers, steps, [{'k': 'peers', 'peers': []}], pat=rng.randrange(251))
    sc['family'] = 'endgame10'
    return sc


GEOS['g10'] = (1000, [10000])


def stale_choke(rng):
    """C12: a choke arriving for a stale assignment: the piece was meanwhile completed by another peer."""
    gname = rng.choice(['g4', 'g2'])
    pl, files, n, plens = geo(gname)
    peers = [peer(0, set(range(n)), serve='none'), peer(1, set(range(n)), serve='good')]
    steps = [{'op': 'connect', 'peer': 0}, send(0, hs(), bf(range(n))), send(0, fr('Unchoke'))]
    if rng.random() < 0.7:
        steps.append(send(0, fr('Choke')))
    steps += [{'op': 'connect', 'peer': 1}, send(1, hs(), bf(range(n))), send(1, fr('Unchoke')), {'op': 'advance', 'ms': 300}]
    for _ in range(rng.randint(1, 3)):
        steps.append(send(0, fr(rng.choice(['Choke', 'Choke', 'Unchoke']))))
    if rng.random() < 0.5:
        steps.append({'op': 'close', 'peer': 0})            # its stale assignment names a piece we own by now
    steps.append({'op': 'advance', 'ms': 100})
    sc = base(gname, peers, steps, [{'k': 'peers', 'peers': []}], pat=rng.randrange(251))
    sc['family'] = 'stale_choke'
    return sc


def optimistic(rng):
    """C09/C14: a leecher that holds something we want goes through regular slot -> choked (no interest) ->
    optimistic unchoke -> choked again, and asks for a piece we own at every stage."""
    gname = 'g4'
    pl, files, n, plens = geo(gname)
    peers = [peer(0, {0}, serve='good'), peer(1, {1}, serve='none')]
    req = lambda: send(1, fr('Request', 0, 0, rng.choice([10, 100])))
    at = lambda ms: {'op': 'advance_to', 'ms': ms}
    # rotations happen every 10 s; the optimistic slot is re-drawn when the round counter wraps (30 s, 60 s, ...)
    steps = [{'op': 'connect', 'peer': 0}, send(0, hs(), bf({0})), send(0, fr('Unchoke')), {'op': 'advance', 'ms': 200},
             {'op': 'connect', 'peer': 1}, send(1, hs(), bf({1})), req(),
             {'op': 'advance', 'ms': 25000, 'slice': 1000}, at(31000), req(),   # rotation at 30 s: never interested -> choked
             {'op': 'advance', 'ms': 20000, 'slice': 1000}, at(rng.choice([52000, 55000, 58000])), send(1, fr('Interested')),
             at(61000), req(),                                                   # rotation at 60 s draws it as optimistic unchoke
             send(1, fr('NotInterested')),
             {'op': 'advance', 'ms': 5000, 'slice': 1000}, at(rng.choice([71000, 81000])), req(), req(),   # choked again; the flag may be stale
             {'op': 'advance', 'ms': 500}]
    sc = base(gname, peers, steps, [{'k': 'peers', 'peers': []}], pat=rng.randrange(251))
    sc['family'] = 'optimistic'
    return sc


def diskfault(rng):
    """C01: storing a verified piece fails (a directory squats on the piece file name): the piece must not
    become owned or advertised, the connection ends, other pieces are unaffected."""
    gname = rng.choice(['g4', 'g2', 'g3'])
    pl, files, n, plens = geo(gname)
    blocked = sorted(rng.sample(range(n), rng.randint(1, max(1, n // 2))))
    peers = [peer(0, set(range(n)), serve='good'), peer(1, set(range(n)), serve='good'), peer(2, set(), serve='none')]
    steps = [{'op': 'connect', 'peer': 0}, send(0, hs(), bf(range(n))), send(0, fr('Unchoke')), {'op': 'advance', 'ms': 100},
             {'op': 'connect', 'peer': 2}, send(2, hs()),
             {'op': 'connect', 'peer': 1}, send(1, hs(), bf(range(n))), send(1, fr('Unchoke')), {'op': 'advance', 'ms': 200},
             send(2, bf(set())), send(2, fr('Interested')), send(2, fr('Request', blocked[0], 0, 1)), {'op': 'advance', 'ms': 50}]
    sc = base(gname, peers, steps, [{'k': 'peers', 'peers': []}], pat=rng.randrange(251))
    sc['family'] = 'diskfault'
    sc['blocked'] = blocked
    return sc



GEOS['g1'] = (16384, [100])


def choke_race(rng):
    """C12: in a one-piece torrent two peers fetch the same piece (end game); the loser's Choke and the
    winner's last block arrive back to back, so the manager may see the Choke while the loser's
    assignment still names the piece that has just become owned."""
    gname = 'g1'
    # the loser's stream is tiny: while it writes its requests it blocks until the harness reads, so its
    # Choke (already queued) and the Have broadcast are found together when it continues
    peers = [peer(0, {0}, serve='none', buf=rng.choice([8, 16, 20])), peer(1, {0}, serve='none')]
    steps = [{'op': 'connect', 'peer': 1}, send(1, hs(), bf({0})), send(1, fr('Unchoke')),
             {'op': 'connect', 'peer': 0}, send(0, hs(), bf({0}))]
    parts = [{'peer': 0, 'frames': [fr('Unchoke')] + [fr('Choke')] * rng.choice([1, 1, 2])}, {'peer': 1, 'frames': [fr('Piece', 0, 0, 100)]}]
    if rng.random() < 0.3:
        parts.reverse()
    steps.append({'op': 'burst', 'parts': parts})
    steps.append(send(0, fr(rng.choice(['Choke', 'Unchoke']))))
    steps.append({'op': 'advance', 'ms': 100})
    sc = base(gname, peers, steps, [{'k': 'peers', 'peers': []}], pat=rng.randrange(251))
    sc['family'] = 'choke_race'
    return sc



def handover(rng):
    """C02: an honest peer unchokes us, changes its mind at once (chokes before answering), and another
    honest peer delivers everything, including the piece the first one had been asked for."""
    gname = rng.choice(['g1', 'g2', 'g4'])
    pl, files, n, plens = geo(gname)
    peers = [peer(0, set(range(n)), serve='good'), peer(1, set(range(n)), serve='good', lifo=rng.random() < 0.5)]
    steps = [{'op': 'connect', 'peer': 0}, send(0, hs(), bf(range(n))), send(0, fr('Unchoke'), fr('Choke')),
             {'op': 'connect', 'peer': 1}, send(1, hs(), bf(range(n))), send(1, fr('Unchoke')), {'op': 'advance', 'ms': rng.choice([5, 300])},
             send(0, fr('Unchoke')), {'op': 'advance', 'ms': 25000, 'slice': 1000}]
    sc = base(gname, peers, steps, [{'k': 'peers', 'peers': []}], pat=rng.randrange(251))
    sc['family'] = 'honest'
    sc['essential'] = [1]
    return sc


def rarest(rng):
    """C13: unequal availability: low-numbered pieces are held by many peers, high-numbered ones by few; a
    peer holding everything must be asked for one of the rarest pieces, not for the first one."""
    gname = rng.choice(['g12', 'g4'])
    pl, files, n, plens = geo(gname)
    k = rng.randint(3, 5)
    peers = []
    steps = []
    for j in range(k - 1):
        # peer j holds the first pieces only (prefixes of different length): availability falls with the index
        upto = rng.randint(1, n - 1)
        peers.append(peer(j, set(range(upto)), serve='none'))
        steps += [{'op': 'connect', 'peer': j}, send(j, hs(), bf(range(upto)))]
    full = k - 1
    peers.append(peer(full, set(range(n)), serve=rng.choice(['none', 'good'])))
    steps += [{'op': 'connect', 'peer': full}, send(full, hs(), bf(range(n))), send(full, fr('Unchoke'))]
    order = list(range(k - 1))
    rng.shuffle(order)
    for j in order:
        steps.append(send(j, fr('Unchoke')))
    steps.append({'op': 'advance', 'ms': 50})
    sc = base(gname, peers, steps, [{'k': 'peers', 'peers': []}], pat=rng.randrange(251))
    sc['family'] = 'rarest'
    return sc


def slots(rng):
    """C14: more interested peers than slots over several optimistic rounds: the optimistic peer's rate may
    beat a regular slot holder's at a later rotation."""
    gname = 'g4'
    pl, files, n, plens = geo(gname)
    k = rng.choice([12, 13, 14])
    peers = [peer(j, {rng.randrange(n)}, serve='none') for j in range(k)]
    steps = [{'op': 'advance', 'ms': 10}]
    for j in range(k):
        steps += [{'op': 'connect', 'peer': j}, send(j, hs()), {'op': 'rates', 'peer': j, 'dl': rng.randrange(10), 'ul': rng.randrange(10)},
                  send(j, bf(peers[j]['has'])), send(j, fr('Interested'))]
    if rng.random() < 0.5:
        # a seeder delivers everything while all the others stay connected: from now on the client owns every piece
        # and ranks its peers by the other rate; the two rates order the peers in opposite ways
        peers.append(peer(k, set(range(n)), serve='good'))
        # (it declares interest, so the client keeps the connection when the download is complete: nobody disconnects)
        steps += [{'op': 'connect', 'peer': k}, send(k, hs(), bf(range(n))), {'op': 'rates', 'peer': k, 'dl': 0, 'ul': 0}, send(k, fr('Interested')),
                  send(k, fr('Unchoke')), {'op': 'advance', 'ms': 300}]
        for j in range(k):
            r = rng.randrange(20)
            steps.append({'op': 'rates', 'peer': j, 'dl': r, 'ul': 20 - r})
    for rnd in range(rng.choice([7, 8, 10])):
        steps.append({'op': 'advance', 'ms': 10000, 'slice': 2500})
        for _ in range(rng.randint(0, 3)):
            j = rng.randrange(k)
            steps.append({'op': 'rates', 'peer': j, 'dl': rng.randrange(12), 'ul': rng.choice([0, 3, 11, 15, 20])})
    steps.append({'op': 'advance', 'ms': 300})
    sc = base(gname, peers, steps, [{'k': 'peers', 'peers': []}], pat=rng.randrange(251))
    sc['family'] = 'slots'
    return sc


def late_joiner(rng):
    """C14: ten or more interested peers that never sent a bitfield (so none of them holds a slot yet) have reported
    their rates; a newcomer is unchoked on its bitfield just before a rotation and has no rates yet.  Whatever the
    rotation does with unrated peers, the slot bound holds afterwards."""
    gname = 'g4'
    pl, files, n, plens = geo(gname)
    k = rng.choice([10, 11, 12])
    peers = [peer(j, {rng.randrange(n)}, serve='none') for j in range(k + 1)]
    steps = [{'op': 'advance', 'ms': 10}]
    for j in range(k):
        steps += [{'op': 'connect', 'peer': j}, send(j, hs()), send(j, fr('Have', peers[j]['has'][0])), send(j, fr('Interested')),
                  {'op': 'rates', 'peer': j, 'dl': rng.randrange(10), 'ul': 1 + rng.randrange(10)}]
    steps.append({'op': 'advance', 'ms': rng.choice([25000, 35000]), 'slice': 2500})
    steps += [{'op': 'connect', 'peer': k}, send(k, hs()), send(k, bf(peers[k]['has'])), send(k, fr('Interested'))]
    for rnd in range(3):
        steps.append({'op': 'advance', 'ms': 10000, 'slice': 2500})
    steps.append({'op': 'advance', 'ms': 300})
    sc = base(gname, peers, steps, [{'k': 'peers', 'peers': []}], pat=rng.randrange(251))
    sc['family'] = 'slots'
    return sc


def dupaddr(rng):
    """C12/C02/C08: a second connection arrives from an address the client is already connected to (a peer whose
    outgoing connections use its listening port, a quick reconnect from the same port, or a peer playing
    tricks).  The client must keep exactly one peer record per address: the reservation of the first
    connection stays backed, the download continues and nothing panics."""
    gname = rng.choice(['g4', 'g3', 'g2'])
    pl, files, n, plens = geo(gname)
    first_out = rng.random() < 0.5
    a = peer(0, set(range(n)), serve='none')
    b = peer(1, set(range(n)), serve='none', label=a['addr'] + '#2')
    b['addr'] = a['addr']
    c = peer(2, set(range(n)), serve='good')
    if first_out:
        a['listen'] = True
    steps = [{'op': 'advance', 'ms': 20}]
    if not first_out:
        steps.append({'op': 'connect', 'peer': 0})
    steps += [send(0, hs(), bf(range(n))), send(0, fr('Unchoke'))]
    variant = rng.choice(['live', 'live', 'reconnect'])
    if variant == 'live':
        # both connections exist at once
        steps += [{'op': 'connect', 'peer': 1}, send(1, hs())]
        if rng.random() < 0.5:
            steps.append(send(1, bf(range(n)), fr('Unchoke')))
        steps += [{'op': 'serve', 'peer': 0, 'mode': 'good'}, {'op': 'advance', 'ms': 50}]
    else:
        # the first connection is closed and the same address connects again before the client has noticed
        steps += [{'op': 'close', 'peer': 0, 'settle': False}, {'op': 'connect', 'peer': 1}, send(1, hs(), bf(range(n)), fr('Unchoke')),
                  {'op': 'serve', 'peer': 1, 'mode': 'good'}, {'op': 'advance', 'ms': 50}]
    steps += [{'op': 'connect', 'peer': 2}, send(2, hs(), bf(range(n))), send(2, fr('Unchoke')), {'op': 'advance', 'ms': 25000, 'slice': 1000}]
    sc = base(gname, [a, b, c], steps, [{'k': 'peers', 'peers': [0] if first_out else []}], pat=rng.randrange(251))
    sc['family'] = 'honest'
    sc['essential'] = [2]
    sc['variant'] = variant
    return sc


def endgame_cancel(rng):
    """C10/C12/C02: end game, two peers fetch the same piece; the second one delivers it first, so the first
    one's task cancels its requests and the manager hands it the next piece in the same step.  The new
    assignment must be requested, tiled and completed like any other."""
    gname = rng.choice(['g4', 'g3', 'g2', 'g12'])
    pl, files, n, plens = geo(gname)
    x = rng.randrange(n)
    a = peer(0, set(range(n)), serve='none')
    b = peer(1, {x}, serve='none', lifo=rng.random() < 0.5)
    steps = [{'op': 'connect', 'peer': 0}, send(0, hs(), bf({x})), send(0, fr('Unchoke'))]
    # the first peer turns out to hold more pieces while x is in flight
    more = [p for p in range(n) if p != x]
    rng.shuffle(more)
    if more:
        steps.append(send(0, *[fr('Have', p) for p in more[:rng.randint(1, len(more))]]))
    steps += [{'op': 'connect', 'peer': 1}, send(1, hs(), bf({x})), send(1, fr('Unchoke'))]
    if rng.random() < 0.3:
        steps += [send(0, fr('Choke')), send(0, fr('Unchoke'))]
    steps += [{'op': 'serve', 'peer': 1, 'mode': 'good'}, {'op': 'advance', 'ms': rng.choice([5, 200])}]
    # the first peer now serves whatever it is asked for; a third peer makes the swarm honest
    c = peer(2, set(range(n)), serve='good')
    steps += [{'op': 'serve', 'peer': 0, 'mode': 'good'}, {'op': 'advance', 'ms': 300},
              {'op': 'connect', 'peer': 2}, send(2, hs(), bf(range(n))), send(2, fr('Unchoke')), {'op': 'advance', 'ms': 25000, 'slice': 1000}]
    sc = base(gname, [a, b, c], steps, [{'k': 'peers', 'peers': []}], pat=rng.randrange(251))
    sc['family'] = 'honest'
    sc['essential'] = [2]
    return sc


def nothing_to_assign(rng):
    """C12/C02: a peer that was asked for a piece chokes us, the piece goes to somebody else, and when the first
    peer unchokes us again there is nothing to ask it for (the piece is reserved outside end game, or the peer
    withdrew its pieces).  When the other peer then completes the piece, the first task must not cancel it."""
    variant = rng.choice(['reserved', 'withdrawn'])
    gname = 'g12' if variant == 'reserved' else rng.choice(['g4', 'g2', 'g12'])
    pl, files, n, plens = geo(gname)
    x = rng.randrange(n)
    a = peer(0, {x}, serve='none')
    b = peer(1, {x}, serve='none')
    c = peer(2, set(range(n)), serve='good')
    steps = [{'op': 'connect', 'peer': 0}, send(0, hs(), bf({x})), send(0, fr('Unchoke'))]
    if variant == 'withdrawn':
        steps.append(send(0, bf(set())))
    steps += [send(0, fr('Choke')), {'op': 'connect', 'peer': 1}, send(1, hs(), bf({x})), send(1, fr('Unchoke')),
              send(0, fr('Unchoke'))]
    if rng.random() < 0.4:
        steps += [send(0, fr('Choke')), send(0, fr('Unchoke'))]
    steps += [{'op': 'serve', 'peer': 1, 'mode': 'good'}, {'op': 'advance', 'ms': rng.choice([5, 300])},
              {'op': 'connect', 'peer': 2}, send(2, hs(), bf(range(n))), send(2, fr('Unchoke')), {'op': 'advance', 'ms': 25000, 'slice': 1000}]
    sc = base(gname, [a, b, c], steps, [{'k': 'peers', 'peers': []}], pat=rng.randrange(251))
    sc['family'] = 'honest'
    sc['essential'] = [2]
    sc['variant'] = variant
    return sc


def reannounce(rng):
    """C02/C19: the client lets a listed peer go (it had nothing to offer on its first visit and said NotInterested:
    "End job normally").  The peer stays reachable and the tracker still lists it: the client has to announce again,
    connect to it again, and - once the peer holds the pieces and the other peers are gone - finish the download."""
    gname = rng.choice(['g4', 'g2', 'g3'])
    pl, files, n, plens = geo(gname)
    part = set(rng.sample(range(n), rng.randint(1, n - 1)))
    a1 = peer(0, set(range(n)), serve='none', listen=True)         # (holds nothing yet on its first visit, see the bitfield below)
    b = peer(1, part, serve='good')
    a2 = peer(2, set(range(n)), serve='good', label=a1['addr'] + '#2')      # the same peer, second visit
    a2['addr'], a2['id'] = a1['addr'], a1['id']
    steps = [{'op': 'advance', 'ms': 20}, send(0, hs(), bf(set())),
             {'op': 'listen', 'peer': 2},                   # it keeps listening
             send(0, fr('NotInterested')), {'op': 'advance', 'ms': 50},
             {'op': 'connect', 'peer': 1}, send(1, hs(), bf(part)), send(1, fr('Unchoke')), {'op': 'advance', 'ms': 500},
             {'op': 'close', 'peer': 1}, {'op': 'advance', 'ms': 1000, 'slice': 500},
             send(2, hs(), bf(range(n))), send(2, fr('Unchoke')),
             # (should the client have kept the first connection instead, the peer announces its pieces there, as any
             #  honest peer does on an open connection)
             send(0, *[fr('Have', p) for p in range(n)]), send(0, fr('Unchoke')), {'op': 'serve', 'peer': 0, 'mode': 'good'},
             {'op': 'advance', 'ms': 25000, 'slice': 1000}]
    sc = base(gname, [a1, b, a2], steps, [{'k': 'peers', 'peers': [0]}, {'k': 'peers', 'peers': [0]}], pat=rng.randrange(251))
    sc['family'] = 'honest'
    sc['essential'] = [0, 2]
    return sc


def orphaned(rng):
    """C02: outside end game (ten or more pieces missing) a piece is being fetched from a peer that then disconnects;
    another honest peer that holds the piece is connected, has unchoked us and is idle (when it unchoked us the piece
    was reserved for the first peer, so there was nothing to ask it for).  The piece must still be fetched from it."""
    gname = 'g12'
    pl, files, n, plens = geo(gname)
    x = rng.randrange(n)
    b = peer(0, {x}, serve='none')
    a = peer(1, {x}, serve='good')
    c = peer(2, set(range(n)) - {x}, serve='good', lifo=rng.random() < 0.5)
    steps = [{'op': 'connect', 'peer': 0}, send(0, hs(), bf({x})), send(0, fr('Unchoke')),
             {'op': 'connect', 'peer': 1}, send(1, hs(), bf({x})), send(1, fr('Unchoke'))]
    late_c = rng.random() < 0.5
    if not late_c:
        steps += [{'op': 'connect', 'peer': 2}, send(2, hs(), bf(set(range(n)) - {x})), send(2, fr('Unchoke')), {'op': 'advance', 'ms': 300}]
    how = rng.choice(['close', 'choke_close', 'choke_stay'])
    if how != 'close':
        steps.append(send(0, fr('Choke')))                  # it chokes us first ...
    if how != 'choke_stay':
        steps.append({'op': 'close', 'peer': 0})            # ... then goes away (or stays, choking us for good)
    steps.append({'op': 'advance', 'ms': 100})
    if late_c:
        steps += [{'op': 'connect', 'peer': 2}, send(2, hs(), bf(set(range(n)) - {x})), send(2, fr('Unchoke'))]
    steps.append({'op': 'advance', 'ms': 25000, 'slice': 1000})
    sc = base(gname, [b, a, c], steps, [{'k': 'peers', 'peers': []}], pat=rng.randrange(251))
    sc['family'] = 'honest'
    sc['essential'] = [1, 2]
    return sc


def choked_delivery(rng):
    """C10/C12/C01: a peer chokes us in the middle of a piece and still delivers what it had been asked for (the
    blocks were on their way).  Each such block is an accepted block: further requests follow while blocks remain,
    and the piece completes with the last one - choked or not."""
    gname = rng.choice(['g3', 'g2', 'g3'])
    pl, files, n, plens = geo(gname)
    a = peer(0, set(range(n)), serve='none', rude=True, lifo=rng.random() < 0.5)
    b = peer(1, set(range(n)), serve='good')
    steps = [{'op': 'connect', 'peer': 0}, send(0, hs(), bf(range(n))), send(0, fr('Unchoke')),
             send(0, fr('Choke')), {'op': 'serve', 'peer': 0, 'mode': 'good'}, {'op': 'advance', 'ms': rng.choice([5, 100])}]
    if rng.random() < 0.7:
        steps.append(send(0, fr('Unchoke')))
        steps.append({'op': 'advance', 'ms': 100})
        if rng.random() < 0.5:
            steps += [send(0, fr('Choke')), {'op': 'advance', 'ms': 50}, send(0, fr('Unchoke'))]
    steps += [{'op': 'connect', 'peer': 1}, send(1, hs(), bf(range(n))), send(1, fr('Unchoke')), {'op': 'advance', 'ms': 25000, 'slice': 1000}]
    sc = base(gname, [a, b], steps, [{'k': 'peers', 'peers': []}], pat=rng.randrange(251))
    sc['family'] = 'honest'
    sc['essential'] = [1]
    return sc


def init_window(rng):
    """C11: a piece is completed on another connection between the moment the manager takes the bitfield for a
    newcomer (Init) and the moment the newcomer's task acts on it (the reply is handed over a little later): the
    bitfield does not contain the piece, so its Have must still be announced on the new connection."""
    gname = rng.choice(['g4', 'g2', 'g3'])
    pl, files, n, plens = geo(gname)
    a = peer(0, set(range(n)), serve='none', hold=0)
    b = peer(1, set(), serve='none')
    out = rng.random() < 0.4
    if out:
        b['listen'] = True
    steps = [{'op': 'advance', 'ms': 10}, {'op': 'connect', 'peer': 0}, send(0, hs(), bf(range(n))), send(0, fr('Unchoke'))]
    if not out:
        steps.append({'op': 'connect', 'peer': 1})
    # the seeder starts answering; the newcomer's handshake arrives while blocks are in flight and the reply to its
    # Init is delayed by a few milliseconds, during which pieces complete
    steps += [{'op': 'delay_replies', 'ms': rng.choice([2, 5, 20]), 'count': 1, 'settle': False},
              {'op': 'serve', 'peer': 0, 'mode': 'good', 'settle': False}]
    if out:
        steps.append({'op': 'advance', 'ms': 1})
    steps += [send(1, hs()), {'op': 'advance', 'ms': 100}, send(1, fr('Unchoke')), {'op': 'advance', 'ms': 300}]
    sc = base(gname, [a, b], steps, [{'k': 'peers', 'peers': [1] if out else []}], pat=rng.randrange(251))
    sc['family'] = 'midflight'
    return sc


def delayed(rng, gen, **kw):
    """any family, with the manager's replies to the connection tasks handed over late at random moments"""
    sc = gen(rng, **kw)
    steps = []
    for st in sc['steps']:
        if rng.random() < 0.25:
            steps.append({'op': 'delay_replies', 'ms': rng.choice([1, 3, 10, 50]), 'count': rng.choice([1, 1, 2, 4]), 'settle': False})
        steps.append(st)
    sc['steps'] = steps
    sc['delayed'] = True
    return sc


def delayed_adversarial(rng):
    return delayed(rng, adversarial)


def delayed_honest(rng):
    return delayed(rng, honest)


def delayed_reassign(rng):
    return delayed(rng, reassign)


def delayed_upload(rng):
    return delayed(rng, upload)


def delayed_choking(rng):
    return delayed(rng, choking)


def stale_kill(rng):
    """C12: a connection is lost while the manager still records a piece for it that somebody else has completed in
    the meantime (end game, two peers fetch the same piece; the first one's task is held up in a call to the manager
    while the second one delivers, and its peer is gone when it comes back).  An owned piece stays owned."""
    gname = rng.choice(['g4', 'g2', 'g3'])
    pl, files, n, plens = geo(gname)
    x = rng.randrange(n)
    y = rng.choice([p for p in range(n) if p != x])
    a = peer(0, {x}, serve='none')
    b = peer(1, {x}, serve='none')
    c = peer(2, set(range(n)), serve='good')
    steps = [{'op': 'connect', 'peer': 0}, send(0, hs(), bf({x})), send(0, fr('Unchoke')),
             {'op': 'connect', 'peer': 1}, send(1, hs(), bf({x})), send(1, fr('Unchoke')),
             {'op': 'delay_replies', 'ms': rng.choice([20, 40]), 'count': 1, 'settle': False},
             dict(send(0, fr('Have', y)), settle=False),
             {'op': 'serve', 'peer': 1, 'mode': 'good', 'scan': False},        # (a few ms of virtual time: the first task is still held up)
             {'op': 'close', 'peer': 0, 'settle': False},
             {'op': 'advance', 'ms': 200},
             {'op': 'connect', 'peer': 2}, send(2, hs(), bf(range(n))), send(2, fr('Unchoke')), {'op': 'advance', 'ms': 25000, 'slice': 1000}]
    sc = base(gname, [a, b, c], steps, [{'k': 'peers', 'peers': []}], pat=rng.randrange(251))
    sc['family'] = 'honest'
    sc['essential'] = [2]
    return sc


def accept_limit(rng):
    """(beyond the listed properties) the listener's admission rule: while four connected peers have nothing we want,
    further incoming connections are turned away; once one of them shows a piece we lack (or leaves), the next is taken."""
    gname = 'g4'
    pl, files, n, plens = geo(gname)
    k = rng.randint(6, 8)
    peers = [peer(j, set(), serve='none') for j in range(k)]
    steps = [{'op': 'advance', 'ms': 10}]
    for j in range(k):
        steps += [{'op': 'connect', 'peer': j}, send(j, hs())]
        if rng.random() < 0.5:
            steps.append(send(j, bf(set())))
        if j == 4:
            # one of the first four becomes interesting, or goes away: room for one more
            if rng.random() < 0.5:
                steps.append(send(rng.randrange(4), fr('Have', rng.randrange(n))))
            else:
                steps.append({'op': 'close', 'peer': rng.randrange(4)})
            steps.append({'op': 'advance', 'ms': 5})
    steps.append({'op': 'advance', 'ms': 100})
    sc = base(gname, peers, steps, [{'k': 'peers', 'peers': []}], pat=rng.randrange(251))
    sc['family'] = 'accept_limit'
    return sc


def out_of_order(rng):
    """C10: the blocks of a piece are answered in another order than they were asked for, in particular the last block
    of the piece before an earlier one: the piece is complete when the last OUTSTANDING block arrives, not before."""
    gname = rng.choice(['g3', 'g2'])
    pl, files, n, plens = geo(gname)
    x = 0                                   # a piece of three blocks in both geometries
    bl = blocks(plens[x])
    a = peer(0, {x}, serve='none')
    b = peer(1, set(range(n)), serve='good')
    order = rng.choice([[0, 2, 1], [0, 2, 1], [1, 0, 2], [0, 1, 2]])
    steps = [{'op': 'connect', 'peer': 0}, send(0, hs(), bf({x})), send(0, fr('Unchoke'))]
    for bi in order:
        steps.append(send(0, fr('Piece', x, bl[bi][0], bl[bi][1])))
    steps += [{'op': 'advance', 'ms': 50}, {'op': 'connect', 'peer': 1}, send(1, hs(), bf(range(n))), send(1, fr('Unchoke')),
              {'op': 'advance', 'ms': 25000, 'slice': 1000}]
    sc = base(gname, [a, b], steps, [{'k': 'peers', 'peers': []}], pat=rng.randrange(251))
    sc['family'] = 'honest'
    sc['essential'] = [1]
    return sc


def choke_idle_have(rng):
    """C12: a peer that unchoked us when there was nothing to fetch from it chokes us again and then announces a piece:
    nothing may be reserved for (or requested from) a peer that is choking us."""
    gname = rng.choice(['g4', 'g2', 'g12'])
    pl, files, n, plens = geo(gname)
    q = rng.randrange(n)
    a = peer(0, {q}, serve='none')
    b = peer(1, set(range(n)), serve='good')
    steps = [{'op': 'connect', 'peer': 0}, send(0, hs(), bf(set())), send(0, fr('Unchoke')), send(0, fr('Choke')), send(0, fr('Have', q)),
             {'op': 'advance', 'ms': 50}]
    if rng.random() < 0.5:
        steps += [send(0, fr('Unchoke')), {'op': 'advance', 'ms': 50}]
    steps += [{'op': 'connect', 'peer': 1}, send(1, hs(), bf(range(n))), send(1, fr('Unchoke')), {'op': 'advance', 'ms': 25000, 'slice': 1000}]
    sc = base(gname, [a, b], steps, [{'k': 'peers', 'peers': []}], pat=rng.randrange(251))
    sc['family'] = 'honest'
    sc['essential'] = [1]
    return sc
