"""Shared machinery of /verif/check: building the harness, running TLC, running the
model-based-test executor, known findings, evidence, exit codes."""
import json
import os
import re
import shutil
import subprocess
import sys
import time

VERIF = os.path.dirname(os.path.dirname(os.path.abspath(__file__)))
SPEC = os.path.join(VERIF, 'spec')
OUT = os.path.join(VERIF, 'out')
HARNESS = os.path.join(VERIF, 'harness')
EVID = os.path.join(VERIF, 'evidence')
JAR = '/opt/veriftools/tla/tla2tools.jar'


class ToolError(Exception):
    pass


def log(*a):
    print(*a, file=sys.stderr, flush=True)


def seed():
    try:
        return int(os.environ.get('VERIF_SEED', '1'))
    except ValueError:
        return 1


def outdir(pid):
    d = os.path.join(OUT, pid)
    os.makedirs(d, exist_ok=True)
    return d


# ------------------------------------------------------------------------------------------
# harness
_built = False


def build_harness():
    """(Re)build the harness against /repo's current working tree. Build failure = tool error."""
    global _built
    if _built:
        return
    env = dict(os.environ)
    env['CARGO_NET_OFFLINE'] = 'true'
    t = time.time()
    p = subprocess.run(['cargo', 'build', '--offline', '--quiet'], cwd=HARNESS, env=env,
                       stdout=subprocess.PIPE, stderr=subprocess.STDOUT, text=True)
    if p.returncode != 0:
        log(p.stdout[-4000:])
        raise ToolError('harness build failed (does /repo compile with --cfg rdest_verif?)')
    log('[build] harness ok in %.1fs' % (time.time() - t))
    _built = True


def harness_bin(name):
    return os.path.join(HARNESS, 'target', 'debug', name)


def run_mbt(cases, chunk=None, timeout=1800, jobs=8):
    """Run the executor on a list of case dicts, return the list of observation dicts (same order).
    A case that kills the executor process (abort, stack overflow) is isolated by bisection and
    reported as {"crash": ...}."""
    build_harness()
    if not cases:
        return []
    n = len(cases)
    if chunk is None:
        chunk = max(1, (n + jobs - 1) // jobs)
    chunks = [cases[i:i + chunk] for i in range(0, n, chunk)]
    procs = []
    for ch in chunks:
        p = subprocess.Popen([harness_bin('mbt')], stdin=subprocess.PIPE, stdout=subprocess.PIPE,
                             stderr=subprocess.PIPE, text=True)
        procs.append((p, ch))
    import threading
    results = [None] * len(chunks)

    def work(i, p, ch):
        data = '\n'.join(json.dumps(c) for c in ch) + '\n'
        try:
            so, se = p.communicate(data, timeout=timeout)
        except subprocess.TimeoutExpired:
            p.kill()
            so, se = p.communicate()
            results[i] = ('timeout', so, se)
            return
        results[i] = (p.returncode, so, se)

    ths = [threading.Thread(target=work, args=(i, p, ch)) for i, (p, ch) in enumerate(procs)]
    for t in ths:
        t.start()
    for t in ths:
        t.join()
    out = []
    for (rc, so, se), ch in zip(results, chunks):
        lines = [l for l in so.split('\n') if l.strip()]
        if rc == 0 and len(lines) == len(ch):
            out.extend(json.loads(l) for l in lines)
        else:
            # executor died: the observations printed so far are good, the next case is the culprit
            good = []
            for l in lines:
                try:
                    good.append(json.loads(l))
                except ValueError:
                    break
            out.extend(good)
            k = len(good)
            if k < len(ch):
                out.append({'crash': 'executor exited with %s' % rc, 'stderr': se[-500:]})
                rest = ch[k + 1:]
                if rest:
                    out.extend(run_mbt(rest, chunk=len(rest), timeout=timeout, jobs=1))
    if len(out) != n:
        raise ToolError('executor returned %d observations for %d cases' % (len(out), n))
    return out


# ------------------------------------------------------------------------------------------
# TLC
def run_tlc(module, cfg, pid, workers=8, dump=None, simulate=None, depth=None, timeout=900,
            env_extra=None, java_opts=None, coverage=False, extra=None, tag=None, seed_arg=None, xmx=None):
    """Run TLC on spec/<module>.tla with spec/<cfg>. Returns dict with counts and stdout.
    Raises ToolError on timeout / TLC errors other than property violations."""
    tag = tag or os.path.basename(cfg).replace('.cfg', '')
    md = os.path.join(outdir(pid), 'tlc_' + tag)
    shutil.rmtree(md, ignore_errors=True)
    os.makedirs(md, exist_ok=True)
    cmd = ['java', '-XX:+UseParallelGC', '-Xmx%s' % (xmx or '8g')]
    if java_opts:
        cmd += java_opts
    cmd += ['-cp', JAR + ':/opt/veriftools/tla/CommunityModules-deps.jar', 'tlc2.TLC']
    cmd += ['-workers', str(workers), '-metadir', md, '-cleanup', '-noGenerateSpecTE',
            '-config', cfg if os.path.isabs(cfg) else os.path.join(SPEC, cfg)]
    if dump:
        cmd += ['-dump', dump]
    if coverage:
        cmd += ['-coverage', '1']
    if simulate:
        cmd += ['-simulate', simulate]
    if depth:
        cmd += ['-depth', str(depth)]
    if seed_arg is not None:
        cmd += ['-seed', str(seed_arg)]
    if extra:
        cmd += extra
    cmd += [os.path.join(SPEC, module + '.tla')]
    env = dict(os.environ)
    if env_extra:
        env.update(env_extra)
    t = time.time()
    try:
        p = subprocess.run(cmd, cwd=md, env=env, stdout=subprocess.PIPE, stderr=subprocess.STDOUT,
                           text=True, timeout=timeout)
    except subprocess.TimeoutExpired:
        raise ToolError('TLC timed out after %ss on %s/%s' % (timeout, module, cfg))
    out = p.stdout
    res = {'stdout': out, 'rc': p.returncode, 'wall': time.time() - t, 'cmd': ' '.join(cmd)}
    m = re.search(r'(\d+) states generated, (\d+) distinct states found', out)
    if m:
        res['generated'] = int(m.group(1))
        res['distinct'] = int(m.group(2))
    m = re.search(r'The depth of the complete state graph search is (\d+)', out)
    if m:
        res['depth'] = int(m.group(1))
    res['violation'] = ('is violated' in out) or ('Error: Invariant' in out) or \
                       ('Temporal properties were violated' in out) or (' was violated' in out) or ('Deadlock reached' in out)
    res['ok'] = ('Model checking completed. No error has been found.' in out) or \
                (simulate is not None and p.returncode in (0,) and 'Error:' not in out)
    if not res['ok'] and not res['violation']:
        log(out[-3000:])
        raise ToolError('TLC failed on %s/%s (rc=%s)' % (module, cfg, p.returncode))
    shutil.rmtree(os.path.join(md, 'states'), ignore_errors=True)
    return res


def coverage_counts(stdout):
    """Parse `-coverage 1` output: {action name: (distinct, total)}."""
    out = {}
    for m in re.finditer(r'<(\w+) line \d+, col \d+ to line \d+, col \d+ of module (\w+)>: (\d+):(\d+)', stdout):
        out[m.group(1)] = (int(m.group(3)), int(m.group(4)))
    return out


# ------------------------------------------------------------------------------------------
# known findings
def load_known():
    path = os.path.join(VERIF, 'known_findings.json')
    if not os.path.exists(path):
        return []
    return json.load(open(path))


class Verdict:
    """Collects violations of one check run, separates known findings, writes replays."""

    def __init__(self, pid, tier):
        self.pid = pid
        self.tier = tier
        self.t0 = time.time()
        self.known = [k for k in load_known() if k.get('property') == pid and k.get('status') == 'known']
        self.violations = []      # (what, replay dict)
        self.known_hits = {}      # finding id -> count
        self.known_example = {}
        self.notes = []

    def violation(self, what, replay, matcher=None):
        """matcher(known_entry, replay) -> bool decides whether a known finding covers this case."""
        if matcher:
            for k in self.known:
                try:
                    hit = matcher(k, replay)
                except Exception:
                    hit = False
                if hit:
                    self.known_hits[k['id']] = self.known_hits.get(k['id'], 0) + 1
                    self.known_example.setdefault(k['id'], (k, what))
                    return
        self.violations.append((what, replay))

    def finish(self, coverage, assumptions, level='model_checking', vacuous=None):
        d = outdir(self.pid)
        for fid, (k, what) in sorted(self.known_example.items()):
            print('KNOWN-FINDING: property=%s %s [%s; %d case(s) this run, e.g. %s]' %
                  (self.pid, k.get('what', fid), fid, self.known_hits[fid], what[:160]))
        paths = []
        for i, (what, replay) in enumerate(self.violations[:20]):
            path = os.path.join(d, 'viol-%s-%d.json' % (self.tier, i))
            with open(path, 'w') as f:
                json.dump({'property': self.pid, 'what': what, 'replay': replay}, f, indent=1)
            paths.append(path)
            print('VIOLATION property=%s replay=%s' % (self.pid, path))
            log('  -> ' + what[:400])
        coverage = dict(coverage)
        coverage.setdefault('known_finding_hits', self.known_hits)
        ev = {
            'property_id': self.pid,
            'tier': self.tier,
            'seed': seed(),
            'level': level,
            'coverage': coverage,
            'assumptions': assumptions,
            'wall_s': round(time.time() - self.t0, 2),
            'violations': len(self.violations),
        }
        os.makedirs(EVID, exist_ok=True)
        with open(os.path.join(EVID, self.pid + '.json'), 'w') as f:
            json.dump(ev, f, indent=1)
        if vacuous:
            log('VACUOUS: ' + vacuous)
            return 2
        if self.violations:
            return 1
        log('[%s] ok: %s' % (self.pid, json.dumps({k: v for k, v in coverage.items() if isinstance(v, (int, bool))})))
        return 0


def action_coverage(stdout, module='Swarm'):
    """From `-coverage 1` output: which action definitions of spec/<module>.tla had any expression evaluated.
    Returns (exercised, not_exercised) lists of definition names (H*/M*/Connect/Exit...)."""
    src = open(os.path.join(SPEC, module + '.tla')).read().split('\n')
    defs = []
    for i, line in enumerate(src, 1):
        m = re.match(r'^(H[A-Z]\w*|M[A-Z]\w*|Connect|Exit|P[A-Z]\w*)(\([^)]*\))? ==', line)
        if m:
            defs.append((i, m.group(1)))
    hits = {}
    for m in re.finditer(r'line (\d+), col \d+ to line \d+, col \d+ of module %s: (\d+)(?::(\d+))?' % module, stdout):
        ln, a = int(m.group(1)), int(m.group(2))
        if a > 0:
            hits[ln] = True
    ex, nex = [], []
    for idx, (start, name) in enumerate(defs):
        end = defs[idx + 1][0] if idx + 1 < len(src) and idx + 1 < len(defs) else len(src)
        # the body of the definition ends at the first blank line; its last line is reached only when all
        # earlier conjuncts held, i.e. when the action was actually taken
        last = start
        for l in range(start, end):
            if src[l - 1].strip() == '' or src[l - 1].startswith('\\*') or src[l - 1].startswith('-----'):
                break
            last = l
        if hits.get(last):
            ex.append(name)
        else:
            nex.append(name)
    return ex, nex
