"""C15 / C16: bencode codec against the Bencode.tla reference automaton and canonical encoder."""
import json
import os
import random

from common import *
import tlaval


def sym2byte(s):
    return ord(s) if len(s) == 1 else int(s[1:], 16)


def syms2hex(seq):
    return ''.join('%02x' % sym2byte(s) for s in seq)


def byte2sym(b):
    return chr(b) if 33 <= b < 127 and chr(b) not in '"\\x' else 'x%02x' % b


def val2json(v):
    """Spec value -> the JSON value encoding used by the executor (dicts: list of [key, value] in
    input order; duplicates kept so the comparison can be lenient about which one wins)."""
    t = v['t']
    if t == 'i':
        return {'i': ('-' if v['neg'] else '') + ''.join(v['d'])}
    if t == 's':
        return {'s': syms2hex(v['v'])}
    if t == 'l':
        return {'l': [val2json(x) for x in v['v']]}
    its = v['v']
    return {'d': [[syms2hex(its[i]['v']), val2json(its[i + 1])] for i in range(0, len(its), 2)]}


def match(spec, impl):
    """spec: val2json output (dict pairs in input order, maybe duplicates); impl: executor JSON
    (dict pairs sorted, unique). Duplicate keys: any of the listed values is accepted."""
    if 'i' in spec:
        return impl.get('i') == spec['i']
    if 's' in spec:
        return impl.get('s') == spec['s']
    if 'l' in spec:
        return 'l' in impl and len(impl['l']) == len(spec['l']) and all(match(a, b) for a, b in zip(spec['l'], impl['l']))
    if 'd' not in impl:
        return False
    keys = {k for k, _ in spec['d']}
    if keys != {k for k, _ in impl['d']} or len(impl['d']) != len(keys):
        return False
    for k, v in impl['d']:
        if not any(k == sk and match(sv, v) for sk, sv in spec['d']):
            return False
    return True


def close_open(stack):
    """Values the input would denote if every open container were closed here (known finding
    F-c16b: rdest accepts unterminated containers at end of input)."""
    items = None
    for fr in reversed(stack):
        its = list(fr['items'])
        if items is not None:
            its = its + [items]
        if fr['k'] == 'top':
            return its
        items = {'t': fr['k'], 'v': its}
    return None


def known_matcher(k, replay):
    sig = k.get('signature', {})
    kind = sig.get('kind')
    st = replay.get('ref_state')
    obs = replay.get('observed', {})
    if kind == 'unterminated_container_at_eof':
        if not st or st['mode'] != 'val' or len(st['stack']) < 2 or not obs.get('ok'):
            return False
        # closing every open container right here must give a well-formed document ...
        extra = 0
        for fr in reversed(st['stack'][1:]):
            if fr['k'] == 'd' and (len(fr['items']) + extra) % 2:
                return False
            extra = 1
        # ... and rdest must have returned exactly the values of that document
        want = [val2json(v) for v in close_open(st['stack'])]
        got = obs.get('values', [])
        return len(want) == len(got) and all(match(a, b) for a, b in zip(want, got))
    return False


MC_ALPHABET = ["0", "1", "2", ":", "i", "l", "d", "e", "-", "a"]


def write_cfg(pid, name, maxlen, invariants=('ReEncodeInv',)):
    path = os.path.join(outdir(pid), name)
    with open(path, 'w') as f:
        f.write('SPECIFICATION Spec\nCONSTANTS\n  Alphabet <- MCAlphabet\n  Code <- MCCode\n  MaxLen = %d\n' % maxlen)
        for inv in invariants:
            f.write('INVARIANT %s\n' % inv)
        f.write('CHECK_DEADLOCK FALSE\n')
    return path


def enumerate_automaton(pid, maxlen, workers=8):
    d = outdir(pid)
    dump = os.path.join(d, 'bencode_%d.dump' % maxlen)
    cfg = write_cfg(pid, 'gen_Bencode_%d.cfg' % maxlen, maxlen)
    res = run_tlc('MC_Bencode', cfg, pid, workers=workers, dump=dump, timeout=1500)
    if res['violation']:
        raise ToolError('design-level invariant ReEncodeInv violated in Bencode.tla:\n' + res['stdout'][-2000:])
    return res, dump


def check_c16(tier, replay=None):
    pid = 'C16'
    V = Verdict(pid, tier)
    rng = random.Random(seed())
    if replay:
        case = json.load(open(replay))['replay']
        obs = run_mbt([{'op': 'bdecode', 'input': case['input_hex']}])[0]
        log('replay: input=%r expected accept=%s observed=%s' % (bytes.fromhex(case['input_hex']), case['expect_accept'], obs))
        bad = judge_decode(case['expect_accept'], case.get('expect_values'), obs)
        if bad:
            print('VIOLATION property=%s replay=%s' % (pid, replay))
            return 1
        return 0
    maxlen = 6 if tier == 'quick' else 8
    res, dump = enumerate_automaton(pid, maxlen, workers=8 if tier == 'quick' else 12)
    cases, metas = [], []
    n_acc = n_dead = 0
    for st in tlaval.iter_dump(dump):
        accept = st['mode'] == 'val' and len(st['stack']) == 1
        dead = st['mode'] == 'dead'
        n_acc += accept
        n_dead += dead
        hexin = syms2hex(st['inp'])
        vals = [val2json(v) for v in st['stack'][0]['items']] if accept else None
        cases.append({'op': 'bdecode', 'input': hexin})
        metas.append((hexin, accept, vals, st, 0))
        if dead:
            # a dead prefix must stay rejected whatever follows: every one-symbol extension (the decoder may
            # only notice the defect at a later delimiter), and some longer random ones
            exts = ['%02x' % ord(c) for c in MC_ALPHABET] if (tier == 'quick' or len(st['inp']) < maxlen) else []
            if rng.random() < 0.25:
                exts.append(''.join('%02x' % ord(rng.choice(MC_ALPHABET)) for _ in range(rng.randint(2, 4))))
            for ext in exts:
                cases.append({'op': 'bdecode', 'input': hexin + ext})
                metas.append((hexin + ext, False, None, st, 1))
    os.remove(dump)
    obs = run_mbt(cases)
    agree = 0
    for (hexin, accept, vals, st, ext), o in zip(metas, obs):
        bad = judge_decode(accept, vals, o)
        if bad:
            V.violation('%s on input %r' % (bad, bytes.fromhex(hexin)),
                        {'input_hex': hexin, 'expect_accept': accept, 'expect_values': vals,
                         'ref_state': {'mode': st['mode'], 'stack': st['stack']} if not ext else None,
                         'observed': o},
                        known_matcher)
        else:
            agree += 1
    # implementation -> spec: mutated real-shaped documents, verdicts validated by TLC (BencodeTrace)
    tv = trace_validate(pid, V, rng, 150 if tier == 'quick' else 3000)
    samples = [{'input': bytes.fromhex(m[0]).decode('latin1'), 'expect_accept': m[1], 'observed': o}
               for m, o in list(zip(metas, obs))[:: max(1, len(metas) // 6)]][:6]
    cov = {
        'states': res['distinct'], 'transitions': res['generated'],
        'traces_validated_against_impl': agree + tv['accepted'],
        'samples': samples, 'exhaustive': True,
        'evaluations': len(cases) + tv['docs'], 'accepting_states': n_acc, 'dead_states': n_dead,
        'alphabet': MC_ALPHABET, 'max_len': maxlen,
        'impl_to_spec_docs': tv['docs'], 'impl_to_spec_steps': tv['steps'],
        'rule': 'every reachable state of the Bencode.tla recogniser over the alphabet up to max_len is one '
                'input with the verdict the property demands; replayed through BDecoder::from_array; dead '
                'prefixes are additionally extended by random symbols; mutated documents are decoded by '
                'rdest and the recorded verdicts validated by TLC against the same automaton over the full byte alphabet',
    }
    return V.finish(cov, ['integers outside i64 and string lengths beyond the input are outside the enumeration',
                          'which duplicate dictionary key wins is not asserted',
                          'TLC fingerprint collisions are negligible'])


def judge_decode(accept, vals, o):
    if 'panic' in o or 'crash' in o:
        return 'decoder panicked (%s)' % (o.get('panic') or o.get('crash'))
    if accept:
        if not o.get('ok'):
            return 'well-formed input rejected (%s)' % o.get('err')
        got = o['values']
        if len(got) != len(vals) or not all(match(a, b) for a, b in zip(vals, got)):
            return 'decoded values differ: expected %s got %s' % (json.dumps(vals), json.dumps(got))
        return None
    if o.get('ok'):
        return 'malformed input accepted as %s' % json.dumps(o['values'])
    return None


# ------------------------------------------------------------------------------------------
# implementation -> spec direction
def benc(v):
    if isinstance(v, int):
        return b'i%de' % v
    if isinstance(v, bytes):
        return b'%d:%s' % (len(v), v)
    if isinstance(v, list):
        return b'l' + b''.join(benc(x) for x in v) + b'e'
    return b'd' + b''.join(benc(k) + benc(x) for k, x in sorted(v.items())) + b'e'


def sample_docs(rng, n):
    """Torrent- and tracker-reply-shaped documents, mutated (byte flips, deletions, truncations,
    insertions of delimiter bytes)."""
    docs = []
    for _ in range(n):
        kind = rng.randrange(3)
        if kind == 0:
            doc = {b'announce': b'http://t/a', b'info': {b'name': b'f', b'piece length': rng.choice([1, 16384]),
                                                        b'pieces': bytes(rng.randrange(256) for _ in range(20)),
                                                        b'length': rng.randrange(100)}}
        elif kind == 1:
            doc = {b'interval': rng.randrange(2000), b'peers': [{b'ip': b'10.0.0.%d' % rng.randrange(9), b'port': 6881,
                                                                 b'peer id': bytes(rng.randrange(256) for _ in range(20))}
                                                                for _ in range(rng.randrange(3))]}
        else:
            doc = [rng.choice([0, -1, 2 ** 63 - 1, -2 ** 63, -2 ** 63 + 1, 10 ** 18, rng.randrange(-5, 5)]),
                   [b'', b'ab', {b'k': []}], {b'a': {b'b': -1}}]
        data = bytearray(benc(doc))
        for _ in range(rng.choice([0, 0, 1, 1, 2, 3])):
            op = rng.randrange(5)
            if not data:
                break
            i = rng.randrange(len(data))
            if op == 0:
                data[i] = rng.randrange(256)
            elif op == 1:
                del data[i]
            elif op == 2:
                data = data[:i]
            elif op == 3:
                data.insert(i, rng.choice(b'ilde:0-19'))
            else:
                data[i] = rng.choice(b'ilde:0-19')
        docs.append(bytes(data[:90]))
    return docs


def spec_val(j):
    """executor JSON value -> record the trace spec can compare with its own values"""
    if 'i' in j:
        s = j['i']
        return {'t': 'i', 'neg': s.startswith('-'), 'd': list(s.lstrip('-'))}
    if 's' in j:
        return {'t': 's', 'v': [byte2sym(b) for b in bytes.fromhex(j['s'])]}
    if 'l' in j:
        return {'t': 'l', 'v': [spec_val(x) for x in j['l']]}
    return {'t': 'd', 'v': [[{'t': 's', 'v': [byte2sym(b) for b in bytes.fromhex(k)]}, spec_val(v)] for k, v in j['d']]}


def repo_test_inputs():
    """byte-string literals used by the repository's own tests (tests/*.rs): their decoder runs are validated too"""
    import glob
    import re
    out = []
    for path in sorted(glob.glob('/repo/tests/*.rs')):
        for m in re.finditer(r'b"((?:[^"\\\\]|\\\\.)*)"', open(path).read()):
            lit = m.group(1)
            try:
                raw = bytes(lit, 'latin1').decode('unicode_escape').encode('latin1')
            except Exception:
                continue
            if 0 < len(raw) <= 120:
                out.append(raw)
    return sorted(set(out))


def boundary_inputs():
    """string lengths at and beyond the machine word: the body can never be complete, so the input is rejected - and nothing panics"""
    lens = ['4294967295', '4294967296', '4294967299', '9223372036854775807', '9223372036854775808', '18446744073709551615',
            '18446744073709551616', '18446744073709551619', '99999999999999999999', '340282366920938463463374607431768211459']
    out = []
    for ln in lens:
        out += [('%s:abc' % ln).encode(), ('l%s:abce' % ln).encode(), ('d%s:abci1ee' % ln).encode(), ('d1:a%s:abce' % ln).encode()]
    return out


def trace_validate(pid, V, rng, n):
    docs = sample_docs(rng, n) + repo_test_inputs() + boundary_inputs()
    obs = run_mbt([{'op': 'bdecode', 'input': d.hex()} for d in docs])
    d = outdir(pid)
    tpath = os.path.join(d, 'bencode_trace.ndjson')
    steps = 0
    with open(tpath, 'w') as f:
        for doc, o in zip(docs, obs):
            rec = {'inp': [byte2sym(b) for b in doc], 'panic': ('panic' in o or 'crash' in o), 'ok': bool(o.get('ok')),
                   'vals': [spec_val(v) for v in o.get('values', [])] if o.get('ok') else []}
            steps += len(doc) + 1
            f.write(json.dumps(rec) + '\n')
    res = run_tlc('BencodeTrace', 'BencodeTrace.cfg', pid, workers=1, timeout=1200,
                  env_extra={'TRACE': tpath},
                  java_opts=['-Xss1g', '-Dtlc2.tool.queue.IStateQueue=StateDeque'], xmx='4g')
    out = res['stdout']
    r = tlaval.find_printed(out, 'TRACE_RESULT')
    b = tlaval.find_printed(out, 'TRACE_BAD')
    if not r or not b:
        log(out[-3000:])
        raise ToolError('BencodeTrace produced no result line')
    matched, bad = r[-1][1], b[-1][1]
    if matched != len(docs):
        raise ToolError('BencodeTrace consumed %d of %d documents' % (matched, len(docs)))
    for rec in bad:
        doc, o = docs[rec['l'] - 1], obs[rec['l'] - 1]
        V.violation('TLC (BencodeTrace) rejects the recorded verdict for %r: observed %s' % (doc, json.dumps(o)[:300]),
                    {'input_hex': doc.hex(), 'expect_accept': not o.get('ok'), 'observed': o, 'source': 'trace',
                     'ref_state': {'mode': rec['mode'], 'stack': rec['stack']}},
                    known_matcher)
    return {'docs': len(docs), 'steps': steps, 'accepted': len(docs) - len(bad)}


# ==========================================================================================
# C15
def gen_values(pid, tag, ints, strs, maxtok, maxdepth=3, workers=8, maxtop=None):
    d = outdir(pid)
    cfg = os.path.join(d, 'gen_%s.cfg' % tag)
    with open(cfg, 'w') as f:
        f.write('SPECIFICATION GSpec\nCONSTANTS\n  Alphabet <- ByteSymbols\n  Code <- ByteCode\n  MaxLen = 0\n'
                '  IntLeaves <- %s\n  StrLeaves <- %s\n  MaxTokens = %d\n  MaxDepth = %d\n  MaxTop = %d\n'
                'INVARIANT EncNonEmpty\nCHECK_DEADLOCK FALSE\n' % (ints, strs, maxtok, maxdepth, maxtop or maxtok))
    dump = os.path.join(d, 'gen_%s.dump' % tag)
    res = run_tlc('MC_BValueGen', cfg, pid, workers=workers, dump=dump, timeout=1500, tag='gen_' + tag)
    if res['violation']:
        raise ToolError('design-level invariant violated in BValueGen.tla:\n' + res['stdout'][-2000:])
    return res, dump


def rand_tree(rng, depth):
    k = rng.randrange(4 if depth > 0 else 2)
    if k == 0:
        return rng.choice([0, 1, -1, 2**63 - 1, -2**63, rng.randrange(-2**63, 2**63), rng.randrange(-1000, 1000)])
    if k == 1:
        return bytes(rng.choice(b':e0123456789ild-a\x00\xff\x80 ') for _ in range(rng.choice([0, 1, 1, 2, 3, 11])))
    if k == 2:
        return [rand_tree(rng, depth - 1) for _ in range(rng.randrange(4))]
    pool = [b'', b'a', b'ab', b'\xff', b'\xf0\x90\x80\x80', b'\x80', b'\xc3\xa9', b'\xef\xbf\xbd', b'z', b'\x00', b'1:a', b'e']
    return {(rng.choice(pool) if rng.random() < 0.7 else bytes(rng.choice(b'ab\x00\xff:e1') for _ in range(rng.randrange(4)))): rand_tree(rng, depth - 1)
            for _ in range(rng.randrange(5))}


def py2json(v):
    if isinstance(v, int):
        return {'i': str(v)}
    if isinstance(v, bytes):
        return {'s': v.hex()}
    if isinstance(v, list):
        return {'l': [py2json(x) for x in v]}
    return {'d': [[k.hex(), py2json(x)] for k, x in v.items()]}


def json2specval(j):
    """executor JSON -> Bencode.tla value (dictionary items as k1,v1,k2,v2,...)"""
    if 'i' in j:
        s = j['i']
        return {'t': 'i', 'neg': s.startswith('-'), 'd': list(s.lstrip('-'))}
    if 's' in j:
        return {'t': 's', 'v': [byte2sym(b) for b in bytes.fromhex(j['s'])]}
    if 'l' in j:
        return {'t': 'l', 'v': [json2specval(x) for x in j['l']]}
    its = []
    for k, v in j['d']:
        its += [{'t': 's', 'v': [byte2sym(b) for b in bytes.fromhex(k)]}, json2specval(v)]
    return {'t': 'd', 'v': its}


def check_c15(tier, replay=None):
    pid = 'C15'
    V = Verdict(pid, tier)
    rng = random.Random(seed())
    if replay:
        case = json.load(open(replay))['replay']
        o = run_mbt([case['case']])[0]
        log('replay: %s -> %s (expected %s)' % (json.dumps(case['case'])[:300], json.dumps(o)[:300], case.get('expect')))
        bad = judge_c15(case['case'], case.get('expect'), o)
        if bad:
            print('VIOLATION property=%s replay=%s' % (pid, replay))
            return 1
        return 0
    cases, expects = [], []
    states = transitions = 0
    # (tag, int leaves, string leaves, max tokens, max nesting, max top-level values)
    plans = [('full3', 'MCInts', 'MCStrs', 3, 3, 3), ('small4', 'MCIntsSmall', 'MCStrsSmall', 4, 3, 4),
             ('dict6', 'MCIntsOne', 'MCStrsKeys', 6, 1, 1)] if tier == 'quick' else \
            [('full4', 'MCInts', 'MCStrs', 4, 3, 4), ('small5', 'MCIntsSmall', 'MCStrsSmall', 5, 3, 5),
             ('dict8', 'MCIntsOne', 'MCStrsKeys', 8, 1, 1), ('dict7n', 'MCIntsOne', 'MCStrsKeys', 7, 2, 1)]
    for tag, ints, strs, mt, md, mtop in plans:
        res, dump = gen_values(pid, tag, ints, strs, mt, maxdepth=md, maxtop=mtop, workers=8 if tier == 'quick' else 12)
        states += res['distinct']
        transitions += res['generated']
        for st in tlaval.iter_dump(dump):
            if len(st['gstack']) == 1 and st['gstack'][0]['items']:
                vals = [val2json(v) for v in st['gstack'][0]['items']]
                cases.append({'op': 'bencode', 'values': vals})
                expects.append(syms2hex(st['enc']))
        os.remove(dump)
    n_gen = len(cases)
    # canonical documents: accepting canonical states of the recogniser must re-encode to themselves
    maxlen = 6 if tier == 'quick' else 7
    res2, dump2 = enumerate_automaton(pid, maxlen)
    states += res2['distinct']
    transitions += res2['generated']
    for st in tlaval.iter_dump(dump2):
        if st['mode'] == 'val' and len(st['stack']) == 1 and not st['nc']:
            h = syms2hex(st['inp'])
            cases.append({'op': 'reencode', 'input': h})
            expects.append(h)
    os.remove(dump2)
    obs = run_mbt(cases)
    agree = 0
    for c, e, o in zip(cases, expects, obs):
        bad = judge_c15(c, e, o)
        if bad:
            V.violation(bad, {'case': c, 'expect': e, 'observed': o}, None)
        else:
            agree += 1
    # implementation -> spec: random deep trees, encoder output validated by TLC (EncTrace.tla)
    n = 200 if tier == 'quick' else 3000
    trees = [[rand_tree(rng, rng.randrange(1, 8)) for _ in range(rng.randrange(1, 3))] for _ in range(n)]
    tcases = [{'op': 'bencode', 'values': [py2json(v) for v in t]} for t in trees]
    tobs = run_mbt(tcases)
    tpath = os.path.join(outdir(pid), 'enc_trace.ndjson')
    with open(tpath, 'w') as f:
        for c, o in zip(tcases, tobs):
            enc = bytes.fromhex(o.get('enc', '')) if 'enc' in o else b''
            f.write(json.dumps({'vals': [json2specval(v) for v in c['values']],
                                'enc': [byte2sym(b) for b in enc],
                                'back': bool('enc' in o and o['dec'].get('ok') and o['dec'].get('same'))}) + '\n')
    res3 = run_tlc('EncTrace', 'EncTrace.cfg', pid, workers=1, timeout=1200, env_extra={'TRACE': tpath},
                   java_opts=['-Xss1g', '-Dtlc2.tool.queue.IStateQueue=StateDeque'], xmx='4g')
    r = tlaval.find_printed(res3['stdout'], 'TRACE_RESULT')
    b = tlaval.find_printed(res3['stdout'], 'TRACE_BAD')
    if not r or r[-1][1] != n:
        log(res3['stdout'][-2000:])
        raise ToolError('EncTrace did not consume the whole trace')
    for l in b[-1][1]:
        V.violation('TLC (EncTrace) rejects the recorded encoder run: values %s -> %s' % (json.dumps(tcases[l - 1]['values'])[:200], json.dumps(tobs[l - 1])[:200]),
                    {'case': tcases[l - 1], 'expect': None, 'observed': tobs[l - 1], 'source': 'trace'}, None)
    cov = {
        'states': states, 'transitions': transitions,
        'traces_validated_against_impl': agree + n - len(b[-1][1]),
        'samples': [{'case': c, 'expected_encoding_hex': e, 'observed': o} for c, e, o in list(zip(cases, expects, obs))[:: max(1, len(cases) // 5)]][:5],
        'exhaustive': True, 'evaluations': len(cases) + n, 'generated_value_cases': n_gen,
        'canonical_documents': len(cases) - n_gen, 'random_deep_trees_validated_by_tlc': n,
        'rule': 'value trees built token by token by BValueGen.tla (all trees up to the token bound over boundary leaves) with the '
                'canonical encoding computed by TLC; BEncoder output must equal it byte for byte and BDecoder must return the values; '
                'every canonical accepted document of the recogniser (Bencode.tla) must re-encode to itself; random deep trees are '
                'encoded by rdest and the recorded output validated by TLC',
    }
    return V.finish(cov, ['values between the boundary leaves are sampled, not enumerated',
                          'BValue dictionaries cannot hold duplicate keys, so only unique-key dictionaries are generated'])


def judge_c15(c, expect, o):
    if 'panic' in o or 'crash' in o:
        return 'codec panicked (%s) on %s' % (o.get('panic') or o.get('crash'), json.dumps(c)[:200])
    if c['op'] == 'bencode':
        if expect is not None and o['enc'] != expect:
            return 'encoder output %r differs from the canonical encoding %r' % (bytes.fromhex(o['enc']), bytes.fromhex(expect))
        d = o['dec']
        if 'panic' in d or not d.get('ok') or not d.get('same'):
            return 'decoding the encoding of %s does not return the value: %s' % (json.dumps(c['values'])[:200], json.dumps(d)[:200])
        return None
    if not o.get('ok'):
        return 'canonical document %r rejected: %s' % (bytes.fromhex(c['input']), o.get('err'))
    if o['enc'] != expect:
        return 're-encoding canonical document %r gives %r' % (bytes.fromhex(c['input']), bytes.fromhex(o['enc']))
    return None
