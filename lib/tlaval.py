"""Parser for TLA+ values as printed by TLC (state dumps, PrintT output, error traces).

Sequences/tuples -> list, records -> dict, sets -> list (sorted as printed), functions
(a :> b @@ c :> d) -> dict with stringified keys unless the domain is 1..n (then list),
strings -> str, integers -> int, TRUE/FALSE -> bool, model values -> str.
"""
import re

_tok = re.compile(r'''\s*(<<|>>|\[|\]|\{|\}|\(|\)|,|\|->|:>|@@|"(?:[^"\\]|\\.)*"|-?\d+|[A-Za-z_][A-Za-z0-9_!]*)''')


def tokenize(s):
    pos = 0
    out = []
    n = len(s)
    while pos < n:
        m = _tok.match(s, pos)
        if not m:
            if s[pos:].strip() == '':
                break
            raise ValueError('bad token at %r' % s[pos:pos + 40])
        out.append(m.group(1))
        pos = m.end()
    return out


def _unescape(t):
    body = t[1:-1]
    return body.replace('\\"', '"').replace('\\\\', '\\').replace('\\n', '\n').replace('\\t', '\t')


class _P:
    """Lazy tokenising parser: consumes only as much text as one value needs."""

    def __init__(self, text, pos=0):
        self.s = text
        self.pos = pos
        self.buf = None

    def _lex(self):
        m = _tok.match(self.s, self.pos)
        if not m:
            raise ValueError('bad token at %r' % self.s[self.pos:self.pos + 40])
        self.pos = m.end()
        return m.group(1)

    def peek(self):
        if self.buf is None:
            self.buf = self._lex()
        return self.buf

    def next(self):
        if self.buf is not None:
            t, self.buf = self.buf, None
            return t
        return self._lex()

    def expect(self, x):
        t = self.next()
        if t != x:
            raise ValueError('expected %s got %s' % (x, t))

    def value(self):
        t = self.next()
        if t == '<<':
            out = []
            if self.peek() == '>>':
                self.next()
                return out
            while True:
                out.append(self.value())
                t = self.next()
                if t == '>>':
                    return out
                if t != ',':
                    raise ValueError('seq: ' + t)
        if t == '{':
            out = []
            if self.peek() == '}':
                self.next()
                return out
            while True:
                out.append(self.value())
                t = self.next()
                if t == '}':
                    return out
                if t != ',':
                    raise ValueError('set: ' + t)
        if t == '[':
            out = {}
            if self.peek() == ']':
                self.next()
                return out
            while True:
                k = self.next()
                self.expect('|->')
                out[k] = self.value()
                t = self.next()
                if t == ']':
                    return out
                if t != ',':
                    raise ValueError('rec: ' + t)
        if t == '(':
            # function literal: k :> v @@ k :> v
            pairs = []
            while True:
                k = self.value()
                self.expect(':>')
                v = self.value()
                pairs.append((k, v))
                t = self.next()
                if t == ')':
                    break
                if t != '@@':
                    raise ValueError('fun: ' + t)
            keys = [k for k, _ in pairs]
            if keys == list(range(1, len(keys) + 1)):
                return [v for _, v in pairs]
            return {(k if isinstance(k, str) else repr(k)): v for k, v in pairs}
        if t.startswith('"'):
            return _unescape(t)
        if t == 'TRUE':
            return True
        if t == 'FALSE':
            return False
        if re.fullmatch(r'-?\d+', t):
            return int(t)
        return t  # model value / identifier


def parse(s, pos=0):
    return _P(s, pos).value()


def find_printed(out, marker):
    """Values printed by PrintT(<<"marker", ...>>) in TLC output (possibly wrapped over lines)."""
    res = []
    for m in re.finditer(r'<<\s*"%s"' % re.escape(marker), out):
        res.append(parse(out, m.start()))
    return res


def iter_dump(path):
    """Yield one dict {var: value} per state of a `tlc -dump` file."""
    cur = []
    with open(path) as f:
        for line in f:
            if line.startswith('State '):
                cur = []
            elif line.strip() == '':
                if cur:
                    yield _state(cur)
                    cur = []
            else:
                cur.append(line.rstrip('\n'))
    if cur:
        yield _state(cur)


def _state(lines):
    text = '\n'.join(lines)
    if not text.startswith('/\\'):
        text = '/\\ ' + text   # a single-variable state is printed without the bullet
    parts = re.split(r'(?:^|\n)/\\ ([A-Za-z_][A-Za-z0-9_]*) = ', text)
    # parts: ['', name1, val1, name2, val2...]
    out = {}
    for i in range(1, len(parts) - 1, 2):
        out[parts[i]] = parse(parts[i + 1])
    return out
