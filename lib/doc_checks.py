"""C05 / C17 (MetainfoDoc.tla) and the reply-parsing half of C19 (TrackerDoc.tla)."""
import hashlib
import json
import os
import random

from common import *
import tlaval
from bencode_checks import sym2byte, byte2sym, benc, spec_val
import extract_checks

KEYS_M = ('KAnnounce <- MCKAnnounce\n  KInfo <- MCKInfo\n  KName <- MCKName\n  KPieceLength <- MCKPieceLength\n'
          '  KPieces <- MCKPieces\n  KLength <- MCKLength\n  KFiles <- MCKFiles\n  KPath <- MCKPath\n')
KEYS_T = ('KFailure <- MCKFailure\n  KInterval <- MCKInterval\n  KPeers <- MCKPeers\n  KIp <- MCKIp\n'
          '  KPeerId <- MCKPeerId\n  KPort <- MCKPort\n')


def b(syms):
    return bytes(sym2byte(s) for s in syms)


def num(digs, neg=False):
    return (-1 if neg else 1) * int(''.join(digs)) if digs else None


def gen_docs(pid, module, keys, order, maxmut, invs, workers=8):
    tag = '%s_%s_%d' % (module, order, maxmut)
    cfg = os.path.join(outdir(pid), tag + '.cfg')
    with open(cfg, 'w') as f:
        f.write('SPECIFICATION Spec\nCONSTANTS\n  Code <- ByteCode\n  Groups <- %s\n  Variants <- MCVariants\n  MaxMut = %d\n  %s'
                'INVARIANTS %s\nCHECK_DEADLOCK FALSE\n' % (order, maxmut, keys, ' '.join(invs)))
    dump = os.path.join(outdir(pid), tag + '.dump')
    res = run_tlc(module, cfg, pid, workers=workers, dump=dump, timeout=1800, tag=tag)
    if res['violation']:
        raise ToolError('%s violates its own invariants:\n%s' % (module, res['stdout'][-3000:]))
    docs = []
    for st in tlaval.iter_dump(dump):
        if st['doc'].get('stage') == 'done':
            docs.append((st['choice'], st['doc']))
    os.remove(dump)
    return res, docs


def metainfo_docs(pid, tier):
    plans = [('OrderA', 2), ('OrderB', 1), ('OrderC', 1)] if tier == 'quick' else [('OrderA', 3), ('OrderB', 2), ('OrderC', 2)]
    states = transitions = 0
    docs = []
    for order, mm in plans:
        res, d = gen_docs(pid, 'MC_MetainfoDoc', KEYS_M, order, mm, ['SpanInv', 'DefaultDefined'], workers=8 if tier == 'quick' else 12)
        states += res['distinct']
        transitions += res['generated']
        docs += [(order, c, dd) for c, dd in d]
    return states, transitions, docs


def judge_c05(data, span, o):
    if 'panic' in o or 'crash' in o:
        return 'parser panicked: %s' % (o.get('panic') or o.get('crash'))
    if not o.get('ok'):
        return None
    if span[1] == 0:
        return 'document without a top-level info value accepted'
    want = hashlib.sha1(data[span[0]:span[0] + span[1]]).hexdigest()
    if o['info_hash'] != want:
        return 'info-hash %s is not the SHA-1 of the top-level info value %r (%s)' % (o['info_hash'], data[span[0]:span[0] + span[1]][:80], want)
    return None


def judge_c17(data, rd, o):
    if 'panic' in o or 'crash' in o:
        return 'parser panicked: %s' % (o.get('panic') or o.get('crash'))
    if not o.get('ok'):
        return None
    if not rd['defined']:
        return 'accepted although the top-level dictionary does not define a metainfo (reading %s)' % json.dumps({k: v for k, v in rd.items() if k in ('single', 'npieces')})
    if bytes.fromhex(o['announce']) != b(rd['announce']) or bytes.fromhex(o['tracker_url']) != b(rd['announce']):
        return 'announce %r differs from the document\'s %r' % (bytes.fromhex(o['announce']), b(rd['announce']))
    if bytes.fromhex(o['name']) != b(rd['name']):
        return 'name %r differs from the document\'s %r' % (bytes.fromhex(o['name']), b(rd['name']))
    if int(o['pl']) != num(rd['pl']):
        return 'piece length %s differs from the document\'s %s' % (o['pl'], num(rd['pl']))
    pieces = b(rd['pieces'])
    want_p = [pieces[i:i + 20].hex() for i in range(0, len(pieces), 20)]
    if o.get('pieces') != want_p:
        return 'piece hashes differ from the document\'s'
    if rd['single']:
        want_f = [[str(num(rd['length'])), b(rd['name']).hex()]]
    else:
        want_f = [[str(num(f['len'])), b(f['path']).hex()] for f in rd['files']]
    if o['files'] != want_f:
        return 'file list %s differs from the document\'s %s' % (o['files'], want_f)
    if o.get('acc_panic'):
        return 'accessor panicked on an accepted document: %s' % o['acc_panic']
    total = sum(int(f[0]) for f in want_f)
    if o.get('total_length') != str(total):
        return 'total_length %s, document says %d' % (o.get('total_length'), total)
    return None


def check_c05(tier, replay=None):
    pid = 'C05'
    V = Verdict(pid, tier)
    rng = random.Random(seed())
    if replay:
        r = json.load(open(replay))['replay']
        o = run_mbt([{'op': 'metainfo', 'input': r['input_hex']}])[0]
        bad = judge_c05(bytes.fromhex(r['input_hex']), r['span'], o)
        log('replay: %r span %s -> %s => %s' % (bytes.fromhex(r['input_hex']), r['span'], json.dumps(o)[:300], bad))
        if bad:
            print('VIOLATION property=%s replay=%s' % (pid, replay))
            return 1
        return 0
    states, transitions, docs = metainfo_docs(pid, tier)
    cases = [{'op': 'metainfo', 'input': b(d['bytes']).hex()} for _, _, d in docs]
    # implementation -> spec: mutated real-shaped torrents; TLC (BencodeTrace) recomputes the info span byte by byte
    n = 120 if tier == 'quick' else 500
    tdocs = sample_torrents(rng, n)
    obs = run_mbt(cases + [{'op': 'metainfo', 'input': t.hex()} for t in tdocs])
    agree = accepted = 0
    for (order, choice, d), o in zip(docs, obs):
        data = b(d['bytes'])
        bad = judge_c05(data, d['span'], o)
        accepted += bool(o.get('ok'))
        if bad:
            V.violation('%s; document %r' % (bad, data[:300]), {'input_hex': data.hex(), 'span': d['span'], 'observed': o, 'choice': choice}, None)
        else:
            agree += 1
    tobs = obs[len(cases):]
    tpath = os.path.join(outdir(pid), 'span_trace.ndjson')
    with open(tpath, 'w') as f:
        for t, o in zip(tdocs, tobs):
            # verdict fields are not judged here (C16 does); only the span is taken from TLC
            f.write(json.dumps({'inp': [byte2sym(x) for x in t], 'panic': False, 'ok': False, 'vals': []}) + '\n')
    res = run_tlc('BencodeTrace', 'BencodeTrace.cfg', pid, workers=1, timeout=1800, env_extra={'TRACE': tpath},
                  java_opts=['-Xss1g', '-Dtlc2.tool.queue.IStateQueue=StateDeque'], xmx='4g')
    spans = tlaval.find_printed(res['stdout'], 'TRACE_SPANS')
    if not spans or len(spans[-1][1]) != n:
        log(res['stdout'][-2000:])
        raise ToolError('BencodeTrace did not return the spans of all %d documents' % n)
    t_acc = t_ok = 0
    for t, o, sp in zip(tdocs, tobs, spans[-1][1]):
        span = [sp[0], sp[1] - sp[0]] if sp[0] and sp[1] else [0, 0]
        if o.get('ok'):
            t_acc += 1
        bad = judge_c05(t, span, o)
        if bad:
            V.violation('%s; mutated torrent %r (span from TLC: %s)' % (bad, t[:200], span), {'input_hex': t.hex(), 'span': span, 'observed': o, 'source': 'trace'}, None)
        else:
            t_ok += 1
    vac = None
    if accepted < 10 or t_acc < 5:
        vac = 'too few accepted documents to evaluate the info-hash (%d generated, %d mutated)' % (accepted, t_acc)
    cov = {
        'states': states, 'transitions': transitions, 'traces_validated_against_impl': agree + t_ok,
        'samples': [{'document': b(d['bytes']).decode('latin1')[:200], 'info_span': d['span']} for _, _, d in docs[:: max(1, len(docs) // 5)]][:5],
        'exhaustive': True, 'evaluations': len(cases) + n, 'accepted_generated_docs': accepted, 'accepted_mutated_docs': t_acc,
        'rule': 'documents assembled by MetainfoDoc.tla from per-field variant menus (extra keys before/after info incl. nested dictionaries with a key '
                'spelled info, three entry orders incl. non-canonical, leading-zero lengths, binary strings, trailing data) with the span of the top-level '
                'info value computed by TLC; for every accepted document info_hash must be the SHA-1 of exactly that span; mutated real-shaped torrents are '
                'parsed by rdest and the span recomputed byte by byte by TLC (BencodeTrace.tla)',
    }
    return V.finish(cov, ['SHA-1 is uninterpreted in TLA+ (hashlib/sha1_smol trusted)', 'documents with duplicate top-level keys are not generated'], vacuous=vac)


def sample_torrents(rng, n):
    docs = []
    for _ in range(n):
        info = {b'name': rng.choice([b'f', b'4:info', b'nm']), b'piece length': rng.choice([1, 16384, 262144]),
                b'pieces': bytes(rng.randrange(256) for _ in range(20 * rng.randrange(1, 3)))}
        if rng.random() < 0.6:
            info[b'length'] = rng.randrange(1, 1000)
        else:
            info[b'files'] = [{b'length': rng.randrange(50), b'path': b'p%d' % i} for i in range(rng.randrange(1, 3))]
        if rng.random() < 0.4:
            info[rng.choice([b'info', b'zinfo', b'a'])] = rng.choice([{b'info': 1}, b'info', [{b'info': b'x'}]])
        doc = {b'announce': b'http://t/a', b'info': info}
        for k in rng.sample([b'a', b'comment', b'created by', b'zz', b'infoo', b'inf'], rng.randrange(3)):
            doc[k] = rng.choice([1, b'4:info', {b'info': {b'x': 1}}, [{b'info': 2}], {b'a': {b'info': b'q'}}])
        data = bytearray(benc(doc))
        if rng.random() < 0.3:
            data += rng.choice([b'i0e', b'd4:infoi1ee', b'4:info'])
        if rng.random() < 0.25 and data:
            i = rng.randrange(len(data))
            data[i] = rng.choice(b'ilde:0-19')
        docs.append(bytes(data[:300]))
    return docs


def check_c17(tier, replay=None):
    pid = 'C17'
    V = Verdict(pid, tier)
    rng = random.Random(seed())
    if replay:
        r = json.load(open(replay))['replay']
        if 'create' in r:
            c = dict(r['create'])
            c['scratch'] = os.path.join(extract_checks.scratch_root(pid), 'replay')
            o = run_mbt([c])[0]
            bad = judge_create(r['expect'], o)
        else:
            o = run_mbt([{'op': 'metainfo', 'input': r['input_hex']}])[0]
            bad = judge_c17(bytes.fromhex(r['input_hex']), r['reading'], o) if r.get('reading') else (('panic: %s' % o.get('panic')) if 'panic' in o else None)
        log('replay: %s => %s' % (json.dumps(o)[:400], bad))
        if bad:
            print('VIOLATION property=%s replay=%s' % (pid, replay))
            return 1
        return 0
    states, transitions, docs = metainfo_docs(pid, tier)
    cases = [{'op': 'metainfo', 'input': b(d['bytes']).hex()} for _, _, d in docs]
    # totality on arbitrary bytes: mutated documents and raw junk
    junk = [t for t in sample_torrents(rng, 150 if tier == 'quick' else 3000)]
    junk += [bytes(rng.randrange(256) for _ in range(rng.randrange(40))) for _ in range(100 if tier == 'quick' else 2000)]
    for _ in range(100 if tier == 'quick' else 2000):
        base = bytearray(b(rng.choice(docs)[2]['bytes']))
        for _ in range(rng.randrange(1, 4)):
            if base:
                i = rng.randrange(len(base))
                if rng.random() < 0.5:
                    base[i] = rng.choice(b'ilde:0-19\x00\xff')
                else:
                    del base[i:i + rng.randrange(1, 4)]
        junk.append(bytes(base))
    obs = run_mbt(cases + [{'op': 'metainfo', 'input': j.hex()} for j in junk])
    agree = accepted = 0
    for (order, choice, d), o in zip(docs, obs):
        data = b(d['bytes'])
        bad = judge_c17(data, d['reading'], o)
        accepted += bool(o.get('ok'))
        if bad:
            V.violation('%s; document %r' % (bad, data[:300]), {'input_hex': data.hex(), 'reading': d['reading'], 'observed': o, 'choice': choice}, known_c17)
        else:
            agree += 1
    tot_ok = 0
    for j, o in zip(junk, obs[len(cases):]):
        if 'panic' in o or 'crash' in o or o.get('acc_panic'):
            V.violation('parsing/accessing arbitrary bytes panicked: %s; input %r' % (o.get('panic') or o.get('crash') or o.get('acc_panic'), j[:200]),
                        {'input_hex': j.hex(), 'observed': o}, known_c17)
        else:
            tot_ok += 1
    # create_file o from_file
    cstates, ctrans, ccases, cexps = create_cases(pid, tier, rng)
    cobs = run_mbt(ccases)
    c_ok = 0
    for c, e, o in zip(ccases, cexps, cobs):
        bad = judge_create(e, o)
        if bad:
            V.violation('%s; create_file for a file of %d bytes named %s' % (bad, c['content_len'], c['name']),
                        {'create': {k: v for k, v in c.items() if k != 'scratch'}, 'expect': e, 'observed': o}, None)
        else:
            c_ok += 1
    import shutil
    shutil.rmtree(extract_checks.scratch_root(pid), ignore_errors=True)
    vac = None
    if accepted < 10:
        vac = 'too few accepted documents (%d) to evaluate the reading' % accepted
    cov = {
        'states': states + cstates, 'transitions': transitions + ctrans, 'traces_validated_against_impl': agree + tot_ok + c_ok,
        'samples': [{'document': b(d['bytes']).decode('latin1')[:160], 'defined': d['reading']['defined']} for _, _, d in docs[:: max(1, len(docs) // 5)]][:5],
        'exhaustive': True, 'evaluations': len(cases) + len(junk) + len(ccases), 'accepted_generated_docs': accepted,
        'totality_inputs': len(junk), 'create_cases': len(ccases),
        'rule': 'documents from the MetainfoDoc.tla variant menus (each field absent / wrong type / negative / 0 / huge / valid, single and multi-file, bad file '
                'entries, extra keys) with the reading computed by TLC; an accepted document must have exactly that reading and every accessor must be callable '
                'for every piece index; arbitrary/mutated bytes must not panic; create_file output must parse back to name, length and per-256KiB SHA-1 with '
                'chunk lengths taken from Geometry.tla',
    }
    return V.finish(cov, ['whether a well-typed but unusual document (piece length 0, no pieces) is accepted is not asserted, only what follows once it is accepted',
                          'multi-file path is a single byte string (rdest dialect)'], vacuous=vac)


def known_c17(k, replay):
    return False


def create_cases(pid, tier, rng):
    """create_file: file lengths around the 256 KiB piece size; expected chunk lengths from Geometry.tla."""
    cfg = extract_checks.geo_cfg(pid, 'create', 'HugePLs', 'HugeFLs' if tier == 'quick' else 'CreateFLs', 1, True)
    dump = os.path.join(outdir(pid), 'create.dump')
    res = run_tlc('MC_Geometry', cfg, pid, workers=4, dump=dump, timeout=600, tag='geo_create')
    if res['violation']:
        raise ToolError('Geometry.tla violated:\n' + res['stdout'][-2000:])
    root = extract_checks.scratch_root(pid)
    cases, exps = [], []
    for st in tlaval.iter_dump(dump):
        n = st['fl'][0]
        pat = rng.randrange(251)
        data = extract_checks.content(n, pat)
        hashes, off = [], 0
        for ln in st['exp']['plens']:
            hashes.append(hashlib.sha1(data[off:off + ln]).hexdigest())
            off += ln
        name = rng.choice(['file.bin', 'a b.iso', 'x'])
        cases.append({'op': 'create', 'name': name, 'content_len': n, 'pat': pat, 'tracker': 'http://tr.example/ann',
                      'scratch': os.path.join(root, 'k%d' % len(cases))})
        exps.append({'name': name, 'length': n, 'hashes': hashes, 'announce': 'http://tr.example/ann'})
    os.remove(dump)
    return res['distinct'], res['generated'], cases, exps


def judge_create(e, o):
    if 'panic' in o or 'crash' in o:
        return 'panic: %s' % (o.get('panic') or o.get('crash'))
    if o.get('create') != 'ok':
        return 'create_file failed: %s' % o.get('create')
    m = o['parsed']
    if not m.get('ok'):
        return 'created torrent does not parse back: %s' % m.get('err')
    if bytes.fromhex(m['name']).decode() != e['name'] or bytes.fromhex(m['announce']).decode() != e['announce']:
        return 'created torrent has name %r / announce %r' % (bytes.fromhex(m['name']), bytes.fromhex(m['announce']))
    if m['files'] != [[str(e['length']), e['name'].encode().hex()]]:
        return 'created torrent describes files %s, expected one file of %d bytes' % (m['files'], e['length'])
    if m['pl'] != '262144':
        return 'piece length %s' % m['pl']
    if m['pieces'] != e['hashes']:
        return 'piece hashes of the created torrent are not the SHA-1 of the 256 KiB chunks (%d vs %d hashes)' % (len(m['pieces']), len(e['hashes']))
    if m.get('acc_panic'):
        return 'accessor panicked: %s' % m['acc_panic']
    return None


# ==========================================================================================
# C19, reply parsing half
def tracker_reply_docs(pid, tier):
    plans = [('OrderA', 2), ('OrderB', 1)] if tier == 'quick' else [('OrderA', 4), ('OrderB', 3)]
    states = transitions = 0
    docs = []
    for order, mm in plans:
        res, d = gen_docs(pid, 'MC_TrackerDoc', KEYS_T, order, mm, ['DefaultDefined', 'FailureExclusive'], workers=8)
        states += res['distinct']
        transitions += res['generated']
        docs += [(order, c, dd) for c, dd in d]
    return states, transitions, docs


def judge_reply(rd, o):
    if 'panic' in o or 'crash' in o:
        return 'reply parser panicked: %s' % (o.get('panic') or o.get('crash'))
    if rd['failure']:
        if o.get('ok'):
            return 'reply carrying a failure reason was reported as success'
        return None
    if not o.get('ok'):
        if rd['defined']:
            return 'well-formed reply rejected: %s' % o.get('err')
        return None
    if not rd['defined']:
        return 'accepted a reply that does not define interval and a peer list'
    want = [[b(p['ip']).hex(), b(p['id']).hex(), str(num(p['port']))] for p in rd['peers']]
    if o['peers'] != want:
        return 'peer list %s differs from the listed well-formed entries %s' % (o['peers'], want)
    if isinstance(o['listed'], dict):
        return 'peers() panicked: %s' % o['listed'].get('panic')
    want_l = [[b(p['ip']).decode('latin1') + ':' + str(num(p['port'])), b(p['id']).hex()] for p in rd['peers']]
    if o['listed'] != want_l:
        return 'peers() gives %s, expected address:port with ids in listed order %s' % (o['listed'], want_l)
    if o['interval'] != str(num(rd['interval'])):
        return 'interval %s, reply says %s' % (o['interval'], num(rd['interval']))
    return None
