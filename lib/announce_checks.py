"""C18: tracker announce request (Announce.tla) against the real TrackerClient + reqwest on loopback."""
import json
import os
import random

from common import *
import tlaval
from extract_checks import torrent_bytes

PEER_ID = '-RD0001-AbCdEf012345'


def pct_decode(s):
    """application/x-www-form-urlencoded decoding (the harness's own decoder)."""
    out = bytearray()
    i = 0
    while i < len(s):
        c = s[i]
        if c == ord('%') and i + 2 < len(s) + 0 and all(chr(x) in '0123456789abcdefABCDEF' for x in s[i + 1:i + 3]) and len(s[i + 1:i + 3]) == 2:
            out.append(int(s[i + 1:i + 3].decode(), 16))
            i += 3
        elif c == ord('+'):
            out.append(32)
            i += 1
        else:
            out.append(c)
            i += 1
    return bytes(out)


def parse_request(raw):
    line = raw.split(b'\r\n', 1)[0]
    parts = line.split(b' ')
    if len(parts) != 3 or parts[0] != b'GET':
        return None
    target = parts[1]
    path, _, query = target.partition(b'?')
    params = []
    for kv in query.split(b'&') if query else []:
        k, _, v = kv.partition(b'=')
        params.append((pct_decode(k), pct_decode(v)))
    host = None
    for h in raw.split(b'\r\n')[1:]:
        if h.lower().startswith(b'host:'):
            host = h.split(b':', 1)[1].strip()
    return path, params, host, target


def judge_announce(c, o):
    if 'panic' in o or 'crash' in o:
        return 'tracker client panicked: %s' % (o.get('panic') or o.get('crash'))
    if 'error' in o:
        return 'no usable request: %s (url built: %s)' % (o['error'], o.get('created_url'))
    req = parse_request(bytes.fromhex(o['request']))
    if req is None:
        return 'not a GET request: %r' % bytes.fromhex(o['request'])[:100]
    path, params, host, target = req
    e = c['expect']
    if path != e['path'].encode():
        return 'request path %r, announce URL path is %r (target %r)' % (path, e['path'], target)
    if host != ('127.0.0.1:%d' % o['port']).encode():
        return 'request sent to host %r' % host
    for k, v in e['own']:
        if (k.encode(), v.encode()) not in params:
            return 'announce URL parameter %s=%s is missing from the request (target %r)' % (k, v, target[:200])
    ih = [v for k, v in params if k == b'info_hash']
    if ih != [bytes.fromhex(c['hash'])]:
        return 'info_hash parameter decodes to %r, expected exactly the hash %r (target %r)' % (ih, bytes.fromhex(c['hash']), target[:200])
    want = {b'peer_id': PEER_ID.encode(), b'port': b'6881', b'left': e['total'].encode()}
    for k, v in want.items():
        got = [x for kk, x in params if kk == k]
        if got != [v]:
            return 'parameter %s is %r, expected %r' % (k.decode(), got, v)
    return None


def check_c18(tier, replay=None):
    pid = 'C18'
    V = Verdict(pid, tier)
    rng = random.Random(seed())
    if replay:
        r = json.load(open(replay))['replay']
        o = run_mbt([r['case']])[0]
        bad = judge_announce(r['case'], o)
        log('replay: %s -> %r => %s' % (json.dumps(r['case']['expect']), bytes.fromhex(o.get('request', ''))[:300], bad))
        if bad:
            print('VIOLATION property=%s replay=%s' % (pid, replay))
            return 1
        return 0
    cfg = os.path.join(outdir(pid), 'ann.cfg')
    with open(cfg, 'w') as f:
        f.write('SPECIFICATION Spec\nCONSTANTS\n  Classes <- %s\n  Positions <- MCPositions\n  Shapes <- MCShapes\n  Totals <- MCTotals\n'
                'INVARIANTS RoundTrip UrlSafe\nCHECK_DEADLOCK FALSE\n' % ('MCClassesFew' if tier == 'quick' else 'MCClasses'))
    dump = os.path.join(outdir(pid), 'ann.dump')
    res = run_tlc('MC_Announce', cfg, pid, workers=8, dump=dump, timeout=900, tag='ann')
    if res['violation']:
        raise ToolError('Announce.tla violates its own invariants:\n' + res['stdout'][-2000:])
    allcases = []
    for st in tlaval.iter_dump(dump):
        c = st['case']
        sh = c['shape']
        url = 'http://127.0.0.1:PORTX' + sh['path'] + ('' if sh['query'] == 'none' else '?' + sh['query'])
        own = [] if sh['query'] in ('none', '') else [tuple(pct_decode(x.encode()).decode() for x in kv.split('=', 1)) for kv in sh['query'].split('&') if kv]
        total = int(c['total'])
        # a torrent whose (single) file has the wanted total length; content is irrelevant here
        t = torrent_like(url, total)
        allcases.append({'op': 'announce', 'torrent': t.hex(), 'hash': bytes(c['hash']).hex(), 'peer_id': PEER_ID,
                         'expect': {'path': sh['path'], 'own': own, 'total': c['total'], 'shape': sh['id']}})
    os.remove(dump)
    # every case is a real HTTP exchange; quick samples them (seeded), thorough runs all
    rng.shuffle(allcases)
    cases = list(allcases)
    # all 256 byte values at first / middle / last position (one shape)
    extra = []
    base = bytes(range(97, 117))
    for pos in (0, 9, 19):
        for bval in (range(256) if tier != 'quick' else rng.sample(range(256), 24)):
            h = bytearray(base)
            h[pos] = bval
            extra.append({'op': 'announce', 'torrent': torrent_like('http://127.0.0.1:PORTX/announce', 7).hex(), 'hash': bytes(h).hex(),
                          'peer_id': PEER_ID, 'expect': {'path': '/announce', 'own': [], 'total': '7', 'shape': 'plain'}})
    cases += extra
    obs = run_mbt(cases, jobs=8, timeout=3000)
    agree = 0
    for c, o in zip(cases, obs):
        bad = judge_announce(c, o)
        if bad:
            V.violation('%s; shape %s hash %s' % (bad, c['expect']['shape'], c['hash']), {'case': c, 'observed': o}, None)
        else:
            agree += 1
    cov = {
        'states': res['distinct'], 'transitions': res['generated'], 'traces_validated_against_impl': agree,
        'samples': [{'hash': c['hash'], 'shape': c['expect']['shape'], 'request_line': bytes.fromhex(o.get('request', '')).split(b'\r\n')[0].decode('latin1')}
                    for c, o in list(zip(cases, obs))[:: max(1, len(cases) // 5)]][:5],
        'exhaustive': True, 'evaluations': len(cases), 'cases_in_model': len(allcases),
        'rule': 'every initial state of Announce.tla is (hash vector over byte classes at first/middle/last position, all-same and alternating-with-% vectors) x announce URL '
                'shape (no query, one/two existing parameters incl. percent-encoded, trailing ?) x total length; TLC checks Decode(Encode(h)) = h and URL safety on the model; '
                'the real TrackerClient::run sends the request with real reqwest to a loopback listener; the captured request line is percent-decoded by the harness and compared',
    }
    return V.finish(cov, ['loopback TCP on an ephemeral port instead of a remote tracker', 'HTTP only (no TLS)'])


def torrent_like(url, total):
    from bencode_checks import benc
    info = {b'name': b'f', b'piece length': 262144, b'pieces': b'\x00' * 20, b'length': total}
    return benc({b'announce': url.encode(), b'info': info})
