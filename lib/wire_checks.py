"""C06 (FrameStream.tla) and C07 (WireCases.tla): peer-wire decoding/encoding against Wire.tla."""
import hashlib
import json
import os
import random

from common import *
import tlaval

KINDS_NOARG = ('KeepAlive', 'Choke', 'Unchoke', 'Interested', 'NotInterested')


def quad(q):
    return (q[0] << 24) | (q[1] << 16) | (q[2] << 8) | q[3]


def msg2desc(m):
    """Wire.tla message record -> the descriptor format of rdest::verif::trace::describe"""
    k = m['k']
    if k in KINDS_NOARG:
        return {'k': k}
    if k == 'Have':
        return {'k': k, 'a': [quad(m['idx'])]}
    if k == 'Bitfield':
        return {'k': k, 'hex': bytes(m['bits']).hex()}
    if k in ('Request', 'Cancel'):
        return {'k': k, 'a': [quad(m['idx']), quad(m['begin']), quad(m['len'])]}
    if k == 'Piece':
        return {'k': k, 'a': [quad(m['idx']), quad(m['begin']), len(m['data'])],
                'sha': hashlib.sha1(bytes(m['data'])).hexdigest()}
    if k == 'Handshake':
        return {'k': k, 'pstr': b'BitTorrent protocol'.hex(), 'ih': bytes(m['ih']).hex(), 'id': bytes(m['id']).hex()}
    raise ValueError(k)


def fs_cfg(pid, tag, menu, maxitems, cuts):
    path = os.path.join(outdir(pid), 'fs_%s.cfg' % tag)
    with open(path, 'w') as f:
        f.write('SPECIFICATION Spec\nCONSTANTS\n  MaxFrame = 65536\n  Menu <- %s\n  MaxItems = %d\n  CutOffsets <- %s\n'
                'INVARIANTS SegIndep NothingPending Bounded MenuRoundTrip\nPROPERTY DeadStays\nCHECK_DEADLOCK FALSE\n'
                % (menu, maxitems, cuts))
    return path


def judge_stream(exp, o):
    """exp: spec state (delivered, dead, eof, buf); o: observation of the real Connection."""
    if 'panic' in o or 'crash' in o:
        return 'decoder panicked: %s' % (o.get('panic') or o.get('crash'))
    want = [msg2desc(m) for m in exp['delivered']]
    got = o['frames']
    if got != want:
        if got == want[:len(got)]:
            return 'complete message(s) received but not delivered: got %d of %d (%s missing)' % (
                len(got), len(want), json.dumps(want[len(got):])[:200])
        return 'decoded messages differ: expected %s got %s' % (json.dumps(want)[:300], json.dumps(got)[:300])
    ended = o['end'] is not None
    if exp['dead'] and not ended:
        return 'malformed/oversized/truncated stream does not terminate the connection (decoder keeps waiting, %d bytes buffered)' % o['buflen']
    if not exp['dead'] and ended and not exp.get('doomed'):
        return 'connection terminated (%s) although the stream is well-formed so far' % o['end']
    if not exp['dead'] and not ended and o['buflen'] != len(exp['buf']):
        return 'buffered bytes at quiescence: expected %d got %d' % (len(exp['buf']), o['buflen'])
    return None


def doomed(buf):
    return len(buf) == 4 and buf[0] != 19 and quad(buf) > 65536


def check_c06(tier, replay=None):
    pid = 'C06'
    V = Verdict(pid, tier)
    rng = random.Random(seed())
    if replay and json.load(open(replay))['replay'].get('level') == 'task':
        import swarm_checks, swarm_trace
        r = json.load(open(replay))['replay']
        S = [swarm_trace.Scenario(r['scenario'])]
        raw = swarm_trace.run_scenarios(pid, S)
        bad = [m for p, m in swarm_checks.oracles(S[0], raw[0])[0] if p == pid]
        log('replay (task level) => %s' % bad)
        if bad:
            print('VIOLATION property=%s replay=%s' % (pid, replay))
            return 1
        return 0
    if replay:
        r = json.load(open(replay))['replay']
        o = run_mbt([r['case']])[0]
        bad = judge_stream(r['expect'], o)
        log('replay: %s\n expected %s\n observed %s\n => %s' % (json.dumps(r['case']), json.dumps(r['expect'])[:400], json.dumps(o)[:400], bad))
        if bad:
            print('VIOLATION property=%s replay=%s' % (pid, replay))
            return 1
        return 0
    plans = [('one', 'MCMenu', 1, 'MCCuts'), ('two', 'MCMenu', 2, 'MCCutsFew')] if tier == 'quick' else \
            [('two', 'MCMenu', 2, 'MCCuts'), ('three', 'MCMenuSmall', 3, 'MCCutsFew')]
    states = transitions = 0
    cases, exps = [], []
    streams = {}
    finals = {}     # per stream: the model's state once every byte has arrived (dead?, messages delivered)
    for tag, menu, mi, cuts in plans:
        dump = os.path.join(outdir(pid), 'fs_%s.dump' % tag)
        res = run_tlc('MC_FrameStream', fs_cfg(pid, tag, menu, mi, cuts), pid, workers=8 if tier == 'quick' else 12,
                      dump=dump, timeout=2400, tag='fs_' + tag)
        if res['violation']:
            raise ToolError('FrameStream.tla violates its own design-level invariants:\n' + res['stdout'][-3000:])
        states += res['distinct']
        transitions += res['generated']
        for st in tlaval.iter_dump(dump):
            if st['pos'] == 0 and not st['eof']:
                continue
            data = bytes(st['stream'])
            cutlist = [c for c in (st['prev'], st['pos']) if c > 0]
            cutlist = sorted(set(cutlist))
            case = {'op': 'stream', 'bytes': data.hex(), 'cuts': cutlist, 'eof': st['eof']}
            exp = {'delivered': st['delivered'], 'dead': st['dead'], 'eof': st['eof'], 'buf': st['buf'],
                   'items': st['items'], 'doomed': doomed(st['buf'])}
            cases.append(case)
            exps.append(exp)
            streams.setdefault(tuple(st['items']), data)
            if st['pos'] == len(data) and not st['eof']:
                finals[(tag, tuple(st['items']))] = (st['dead'], st['delivered'])
            exp['_key'] = (tag, tuple(st['items']))
        os.remove(dump)
    # all splittings outright for short streams (every subset of byte positions)
    n_tr = len(cases)
    short = [(it, d) for it, d in streams.items() if len(d) <= (10 if tier == 'quick' else 13)]
    rng.shuffle(short)
    allsplit = []
    for it, d in short[: (12 if tier == 'quick' else 60)]:
        n = len(d)
        for mask in range(1 << (n - 1)):
            cuts = [i + 1 for i in range(n - 1) if mask >> i & 1] + [n]
            allsplit.append(({'op': 'stream', 'bytes': d.hex(), 'cuts': cuts, 'eof': False}, it))
    # The property does not say at which byte a malformed stream ends the connection.  The implementation may end it
    # earlier than the model does, provided the model ends it too on this very stream and delivers no further message
    # before that: then nothing was lost and the stream was doomed at that point.
    for e in exps:
        fin = finals.get(e.pop('_key'))
        if fin and fin[0] and fin[1] == e['delivered']:
            e['doomed'] = True
    obs = run_mbt(cases + [c for c, _ in allsplit])
    agree = 0
    for c, e, o in zip(cases, exps, obs[:n_tr]):
        bad = judge_stream(e, o)
        if bad:
            V.violation('%s; stream %s = %s cuts %s eof=%s' % (bad, '+'.join(e['items']), c['bytes'], c['cuts'], c['eof']),
                        {'case': c, 'expect': e, 'observed': o}, None)
        else:
            agree += 1
    # all-splittings: the result must equal the one-shot result of the same stream (segmentation independence)
    oneshot = {}
    for (c, it), o in zip(allsplit, obs[n_tr:]):
        if len(c['cuts']) == 1:
            oneshot[it] = o
    seg_ok = 0
    for (c, it), o in zip(allsplit, obs[n_tr:]):
        ref = oneshot[it]
        def key(x):
            ended = x.get('end') is not None
            return (x.get('frames'), ended, None if ended else x.get('buflen'), 'panic' in x or 'crash' in x)
        if key(o) != key(ref):
            V.violation('result depends on segmentation: stream %s cuts %s gives %s, one read gives %s' %
                        ('+'.join(it), c['cuts'], json.dumps(o)[:200], json.dumps(ref)[:200]),
                        {'case': c, 'expect': None, 'observed': o, 'oneshot': ref}, None)
        else:
            seg_ok += 1
    import swarm_checks
    task = swarm_checks.c06_task_level(V, tier, rng)
    cov = {
        'states': states, 'transitions': transitions, 'traces_validated_against_impl': agree + seg_ok + task['task_level_traces_accepted'],
        'task_level': task,
        'samples': [{'case': c, 'expected': {'delivered': [msg2desc(m) for m in e['delivered']], 'dead': e['dead'], 'buffered': len(e['buf'])}}
                    for c, e in list(zip(cases, exps))[:: max(1, len(cases) // 5)]][:5],
        'exhaustive': True, 'evaluations': len(cases) + len(allsplit), 'transition_tests': n_tr,
        'all_splittings_runs': len(allsplit), 'distinct_streams': len(streams),
        'rule': 'every reachable state of FrameStream.tla (stream of menu items x previous cut x cut [x EOF]) is one transition test for '
                'the real Connection: deliver the prefix in one read, then the next read, decode to quiescence under the paused clock and '
                'compare delivered messages, termination and buffered byte count with the spec state; additionally all 2^(n-1) splittings of short streams',
    }
    return V.finish(cov, ['frames larger than a few dozen bytes (16 KiB pieces, maximum-size frames) are not in the TLC menu; '
                          'their length-prefix handling is covered by the oversize/BigPiecePrefix items',
                          'message id 0x54 (ambiguous with the handshake detection of rdest) is excluded from the unknown-id menu',
                          'quiescence = recv_frame still pending after 1 ms of paused virtual time'])


# ==========================================================================================
# C07
def expand_payload(n, pat):
    return bytes((pat + i * 7) % 256 for i in range(n))


def c07_cfg(pid, tag, u32s, hashes, bitcounts):
    path = os.path.join(outdir(pid), 'wc_%s.cfg' % tag)
    with open(path, 'w') as f:
        f.write('SPECIFICATION Spec\nCONSTANTS\n  MaxFrame = 65536\n  U32s <- %s\n  PayLens <- MCPayLens\n  BitLens <- MCBitLens\n'
                '  Hashes <- %s\n  BitCounts <- %s\nINVARIANTS RoundTripInv BitsInv\nCHECK_DEADLOCK FALSE\n' % (u32s, hashes, bitcounts))
    return path


def judge_wire(c, exp, o):
    if 'panic' in o or 'crash' in o:
        return 'panic: %s' % (o.get('panic') or o.get('crash'))
    if c['op'] == 'bits':
        if o['data'] != exp['msg'].hex():
            return 'Bitfield::from_vec(%s) serializes to %s, BEP3 says %s' % (c['bits'], o['data'], exp['msg'].hex())
        if o['back'] != c['bits'] or o['wire_back'] != c['bits']:
            return 'bit vector does not survive packing/unpacking: %s -> %s / %s' % (c['bits'], o['back'], o['wire_back'])
        return None
    want = exp['bytes']
    if o['len'] != len(want) or o['sha'] != hashlib.sha1(want).hexdigest():
        return 'serialized bytes differ from the BEP3 layout: got len %d head %s, expected len %d head %s' % (
            o['len'], o['head'], len(want), want[:96].hex())
    p = o['parse']
    if not p.get('ok'):
        return 'own encoding is not decodable: %s' % p.get('err')
    if p['pos'] != len(want):
        return 'decoding consumed %d bytes of a %d byte message' % (p['pos'], len(want))
    if p['re_len'] != len(want) or p['re_sha'] != o['sha']:
        return 'decoded message re-serializes differently (%s...)' % p['re_head'][:60]
    if p['desc'] != exp['desc']:
        return 'decoded message %s differs from the encoded one %s' % (json.dumps(p['desc']), json.dumps(exp['desc']))
    for k, v in exp.get('acc', {}).items():
        if p['acc'].get(k) != v:
            return 'accessor %s returns %s, expected %s' % (k, p['acc'].get(k), v)
    return None


def check_c07(tier, replay=None):
    pid = 'C07'
    V = Verdict(pid, tier)
    rng = random.Random(seed())
    if replay:
        r = json.load(open(replay))['replay']
        o = run_mbt([r['case']])[0]
        exp = r['expect']
        exp = {k: (bytes.fromhex(v) if k in ('bytes', 'msg') else v) for k, v in exp.items()}
        bad = judge_wire(r['case'], exp, o)
        log('replay: %s -> %s => %s' % (json.dumps(r['case'])[:300], json.dumps(o)[:400], bad))
        if bad:
            print('VIOLATION property=%s replay=%s' % (pid, replay))
            return 1
        return 0
    if tier == 'quick':
        cfg = c07_cfg(pid, 'quick', 'MCU32s', 'MCHashesFew', 'MCBitCounts')
    else:
        cfg = c07_cfg(pid, 'thorough', 'MCU32s', 'MCHashes', 'MCBitCounts')
    dump = os.path.join(outdir(pid), 'wc.dump')
    res = run_tlc('MC_WireCases', cfg, pid, workers=8, dump=dump, timeout=1800, tag='wc')
    if res['violation']:
        raise ToolError('WireCases.tla: design-level round trip violated:\n' + res['stdout'][-3000:])
    cases, exps = [], []
    for st in tlaval.iter_dump(dump):
        c = st['case']
        if c['t'] == 'bits':
            bits = c['bits']
            body = bytes(c['bytes'])
            msg = (1 + len(body)).to_bytes(4, 'big') + b'\x05' + body
            cases.append({'op': 'bits', 'bits': bits})
            exps.append({'msg': msg})
            continue
        m = c['m']
        n = c['n']
        pats = [0] if n == 0 else [rng.randrange(256) for _ in range(1 if tier == 'quick' else 3)]
        for pat in pats:
            pay = expand_payload(n, pat)
            want = bytes(c['hdr']) + pay
            case = {'op': 'wire', 'k': m['k'], 'n': n, 'pat': pat}
            acc = {}
            for fld in ('idx', 'begin', 'len'):
                if fld in m:
                    case[fld] = quad(m[fld])
            if m['k'] == 'Handshake':
                case['ih'] = bytes(m['ih']).hex()
                case['id'] = bytes(m['id']).hex()
                desc = msg2desc(m)
                acc = {'id': case['id'], 'valid_same': True}
            elif m['k'] == 'Piece':
                desc = {'k': 'Piece', 'a': [case['idx'], case['begin'], n], 'sha': hashlib.sha1(pay).hexdigest()}
                acc = {'idx': case['idx'], 'begin': case['begin'], 'len': n, 'block_sha': hashlib.sha1(pay).hexdigest()}
            elif m['k'] == 'Bitfield':
                desc = {'k': 'Bitfield', 'hex': pay.hex()}
            else:
                desc = msg2desc(m)
                if m['k'] == 'Have':
                    acc = {'idx': case['idx']}
                if m['k'] == 'Request':
                    acc = {'idx': case['idx'], 'begin': case['begin'], 'len': case['len']}
            for trail in ('', '0000000100', 'ff'):
                cc = dict(case)
                cc['trail'] = trail
                cases.append(cc)
                exps.append({'bytes': want, 'desc': desc, 'acc': acc})
    os.remove(dump)
    obs = run_mbt(cases)
    agree = 0
    for c, e, o in zip(cases, exps, obs):
        bad = judge_wire(c, e, o)
        if bad:
            V.violation('%s; case %s' % (bad, json.dumps(c)[:300]),
                        {'case': c, 'expect': {k: (v.hex() if isinstance(v, bytes) else v) for k, v in e.items()}, 'observed': o}, None)
        else:
            agree += 1
    cov = {
        'states': res['distinct'], 'transitions': res['generated'], 'traces_validated_against_impl': agree,
        'samples': [{'case': c, 'expected_head': (e.get('bytes') or e.get('msg'))[:40].hex()} for c, e in list(zip(cases, exps))[:: max(1, len(cases) // 5)]][:5],
        'exhaustive': True, 'evaluations': len(cases),
        'rule': 'every initial state of WireCases.tla is one message (boundary values per u32 field, payload lengths around 16 KiB and the frame '
                'limit, hash/id byte classes) with the BEP3 bytes computed by Wire!Header, or one bit vector (all vectors for n<=10, walking '
                'patterns beyond) with its packed bytes; replayed through Serializer::data, Frame::parse (alone and with trailing bytes), '
                're-serialization, accessors, Bitfield::from_vec/to_vec',
    }
    return V.finish(cov, ['u32 values between the boundary classes and payload contents are sampled, not enumerated',
                          'payload bytes are expanded from (length, pattern) by the harness'])
