"""Checks decided on the Swarm specification: C01, C02, C08-C14, C20 (and the connection-task
level of C06). Each check = (A) TLC on a bounded instance of Swarm.tla, (C) full-stack runs of the
real code validated by TLC against SwarmTrace.tla, plus wire/disk level oracles on the same runs."""
import hashlib
import json
import os
import random

from common import *
import scenarios as G
import swarm_trace as sw
import tlaval

BLOCK = 16384

# which properties a rejected trace event concerns (the spec action that failed to explain it)
MGR_LABEL = {'Unchoke': ['C12', 'C13', 'C10'], 'Choke': ['C12'], 'Have': ['C12', 'C10'], 'PieceDone': ['C12', 'C13', 'C01', 'C10'], 'PieceCancel': ['C12', 'C13', 'C10'],
             'Kill': ['C12', 'C20', 'C08'], 'Bitfield': ['C14', 'C13'], 'Request': ['C09'], 'Init': ['C11', 'C08'], 'Interested': ['C14'],
             'NotInterested': ['C14', 'C13'], 'SyncStats': ['C14']}
TRIG_LABEL = {'Piece': ['C01', 'C10'], 'Request': ['C09'], 'Handshake': ['C08'], 'BroadHave': ['C11'], 'Unchoke': ['C11', 'C12', 'C10'],
              'TickKA': ['C20'], 'BroadReleased': ['C12', 'C02'], 'BroadState': ['C14', 'C09'], 'Have': ['C12', 'C10'], 'Bitfield': ['C14'], 'Start': ['C08'],
              'KeepAlive': ['C20'], 'Choke': ['C12'], 'Interested': ['C14'], 'NotInterested': ['C14'], 'Cancel': ['C06'], 'TickStats': ['C14']}


def labels_of(ev):
    if ev is None:
        return ['C12']
    e = ev.get('e')
    if e == 'Mgr':
        return MGR_LABEL.get(ev['cmd'], ['C12'])
    if e == 'Rotate':
        return ['C14']
    if e in ('TrackerPeers', 'Settle'):
        return ['C19', 'C02', 'C01']
    if e in ('Connect', 'ConnectDup', 'ConnectRefused'):
        return ['C08', 'C12']
    if e == 'Disk':
        return ['C01']
    if e == 'Panic':
        return ['C12', 'C09', 'C02', 'C06', 'C01']
    if e == 'Exit':
        return TRIG_LABEL.get(ev['trig']['t'], []) + ['C06', 'C08']
    # a task step: the properties of its trigger, and of the manager command it issues / whose reply it executes
    lab = list(TRIG_LABEL.get(ev['trig']['t'], ['C12']))
    if ev['trig']['t'] == 'BroadHave' and (e == 'Call' or ev.get('called')):
        lab += MGR_LABEL['PieceCancel']           # the cancel path: reservation released, next piece requested
    if e == 'Call':
        lab += [x for x in MGR_LABEL.get(ev.get('cmd'), []) if x not in lab]
    return lab


# ------------------------------------------------------------------------------------------
# external oracles: what can be seen from outside the client (wire, disk, time, panics)
def oracles(scn, raw):
    """returns list of (property, message)"""
    out = []
    s = scn
    names = {p['addr']: i for i, p in enumerate(raw[0]['peers'])}
    info_hash, own_id = raw[0]['info_hash'], raw[0]['own_id']
    import collections
    # a harness peer may be the second visit of an address ("addr#2"): hook and manager events carry the address only;
    # they belong to the visit whose Accept/Spawn came last
    visits = collections.defaultdict(list)
    for p in raw[0]['peers']:
        visits[p['addr'].split('#')[0]].append(p['addr'])
    if any(len(v) > 1 for v in visits.values()):
        seen = collections.Counter()
        raw2 = []
        for e in raw:
            a = e.get('peer')
            if e['src'] in ('h', 'mgr') and a in visits and len(visits[a]) > 1:
                if e['src'] == 'mgr' and e['ev'] in ('Accept', 'Spawn'):
                    seen[a] += 1
                e = dict(e, peer=visits[a][min(max(seen[a], 1), len(visits[a])) - 1])
            raw2.append(e)
        raw = raw2
    wire = collections.defaultdict(list)     # (seq, vt, frame) written by the client, as decoded by the harness
    hooked = collections.defaultdict(list)   # frames the hooks say were written
    sends = collections.defaultdict(list)    # (seq, vt, frame) sent by the scripted peer
    trigs = collections.defaultdict(list)
    exits = {}
    closed = {}
    disks = []                           # (seq, good set, bad count, files)
    incoming = set()
    outgoing = set()
    panics = []
    for e in raw:
        src, ev = e['src'], e['ev']
        if src == 'net' and ev == 'Out':
            wire[e['peer']].append((e['seq'], e['vt'], e['f']))
        elif src == 'net' and ev == 'Closed':
            closed.setdefault(e['peer'], e['vt'])
        elif src == 'h':
            hooked[e['peer']].extend(e['sent'])
            if ev in ('Call', 'End', 'Exit') and e['trig']['k'] not in ('Start', 'TickKA', 'TickStats', 'BroadHave', 'BroadState', 'BroadPieceReleased', 'Idle'):
                if not (ev == 'End' and e.get('called')) and not (ev == 'Exit' and e.get('called')):
                    trigs[e['peer']].append(e['trig'])
            if ev == 'Exit':
                exits[e['peer']] = (e['vt'], e['reason'], e['seq'], e['trig'].get('k'))
        elif src == 'drv' and ev == 'Send':
            sends[e['peer']].append((e['seq'], e['vt'], e['f']))
        elif src == 'drv' and ev == 'Disk':
            disks.append((e['seq'], {p['idx'] for p in e['pieces'] if p['good']}, len([p for p in e['pieces'] if not p['good']]), e['files']))
        elif src == 'drv' and ev == 'Panic':
            panics.append(e['msg'])
        elif src == 'drv' and ev == 'Hang':
            panics.append('the run did not come to an end within the real-time watchdog (a task keeps spinning)')
        elif src == 'mgr' and ev == 'Accept':
            incoming.add(e['peer'])
        elif src == 'mgr' and ev == 'Spawn':
            outgoing.add(e['peer'])

    mgr_states = [(e['seq'], e['peers']) for e in raw if e['src'] == 'mgr' and 'peers' in e]

    def mgr_choked(a, seq):
        last = True
        for sq, ps in mgr_states:
            if sq > seq:
                break
            if a.split('#')[0] in ps:
                last = ps[a.split('#')[0]]['ac']
        return last

    def good_after(seq):
        for dseq, good, bad, files in disks:
            if dseq > seq:
                return good
        return disks[-1][1] if disks else set()

    for msg in panics:
        for p in ('C02', 'C12', 'C09', 'C06', 'C01'):
            out.append((p, 'a task panicked: %s' % msg))
    # O1 binding: what the hooks logged as written is what arrived at the remote end
    for a in names:
        w = [f for _, _, f in wire[a]]
        hk = hooked[a]
        def key(f):
            return (f['k'], tuple(f.get('a', [])), f.get('sha'), f.get('hex'), f.get('ih'), f.get('id'))
        if [key(f) for f in w] != [key(f) for f in hk][:len(w)] or (len(hk) != len(w) and a not in exits and a not in closed):
            out.append(('BIND', 'frames observed on the wire of %s differ from the frames the hooks recorded (%d vs %d)' % (a, len(w), len(hk))))
    # O3 / O6: disk only ever holds good pieces; everything served or advertised is stored
    for dseq, good, bad, files in disks:
        if bad:
            out.append(('C01', 'a piece file whose content does not hash to a piece of the torrent is on disk'))
            break
    for a in names:
        unch = False          # what the remote has been told
        outstanding = []
        si = 0
        for seq, vt, f in wire[a]:
            # requests the remote had sent before this frame was observed
            while si < len(sends[a]) and sends[a][si][0] < seq:
                g = sends[a][si][2]
                if g['k'] == 'Request':
                    outstanding.append(tuple(g['a']))
                si += 1
            k = f['k']
            if k == 'Unchoke':
                unch = True
            elif k == 'Choke':
                unch = False
            elif k == 'Have':
                if f['a'][0] not in good_after(seq):
                    out.append(('C11', 'Have(%d) sent to %s but the piece is not stored' % (f['a'][0], a)))
                    out.append(('C01', 'Have(%d) sent to %s but the piece is not stored' % (f['a'][0], a)))
            elif k == 'Bitfield':
                body = bytes.fromhex(f['hex'])
                bits = {i for i in range(s.np) if i // 8 < len(body) and body[i // 8] & (0x80 >> (i % 8))}
                good = good_after(seq)
                if not bits <= good:
                    out.append(('C11', 'bitfield sent to %s advertises %s but only %s are stored' % (a, sorted(bits), sorted(good))))
                    out.append(('C01', 'bitfield sent to %s advertises pieces that are not stored' % a))
                # exactness: everything stored when the manager took the bitfield (its Init step for this connection)
                # must be advertised; what is completed after that moment is announced with Have
                init_seq = max([e['seq'] for e in raw if e['src'] == 'mgr' and e['ev'] == 'Init' and e.get('peer') == a and e['seq'] < seq], default=seq)
                before = set()
                for dseq, g, _, _ in disks:
                    if dseq < init_seq:
                        before = g
                if not before <= bits:
                    out.append(('C11', 'bitfield sent to %s omits stored pieces %s' % (a, sorted(before - bits))))
                if len(body) != (s.np + 7) // 8:
                    out.append(('C11', 'bitfield sent to %s has %d bytes for %d pieces' % (a, len(body), s.np)))
            elif k == 'Piece':
                i, b, l = f['a']
                tup = (i, b, l)
                why = None
                if tup not in outstanding:
                    why = 'answers no outstanding request'
                elif not f.get('good'):
                    why = 'does not carry the stored bytes of that range'
                elif l > BLOCK or i >= s.np or b + l > s.plens[i]:
                    why = 'is outside the piece or longer than 16 KiB'
                elif i not in good_after(seq):
                    why = 'names a piece that is not stored'
                elif not unch and mgr_choked(a, seq):
                    # (choked = as the peer has been told AND as the manager holds it: an Unchoke that is decided
                    #  but still on its way to the wire does not make the answer a violation, same reading as
                    #  ServeOnlyUnchoked in Swarm.tla)
                    why = 'was sent while the peer was choked'
                if why:
                    out.append(('C09', 'Piece%s sent to %s %s' % (tup, a, why)))
                    if 'stored' in why:
                        out.append(('C01', 'Piece%s sent to %s %s' % (tup, a, why)))
                if tup in outstanding:
                    outstanding.remove(tup)
            elif k == 'Request':
                i, b, l = f['a']
                if s.block_index(i, b, l) == 0:
                    out.append(('C10', 'Request(%d,%d,%d) sent to %s is not a block of the piece (16 KiB tiling, remainder last)' % (i, b, l, a)))
    # O7 handshakes
    for a in names:
        if a not in incoming and a not in outgoing:
            continue
        w = wire[a]
        if w:
            f0 = w[0][2]
            if f0['k'] != 'Handshake' or f0.get('ih') != info_hash or f0.get('id') != own_id:
                out.append(('C08', 'first frame written to %s is not our handshake with our info-hash and id: %s' % (a, json.dumps(f0)[:120])))
        good_hs_seq = None
        bad_hs_seq = None
        for seq, vt, f in sends[a]:
            if f['k'] == 'Handshake':
                ok = f.get('ih', info_hash) == info_hash and f.get('pstr', b'BitTorrent protocol'.hex()) == b'BitTorrent protocol'.hex()
                if a in outgoing and f.get('id') not in (None, raw[0]['peers'][names[a]]['id']):
                    ok = False
                if ok and good_hs_seq is None and bad_hs_seq is None:
                    good_hs_seq = seq
                if not ok and bad_hs_seq is None and good_hs_seq is None:
                    bad_hs_seq = seq
        for seq, vt, f in w:
            if a in incoming and (good_hs_seq is None or seq < good_hs_seq) and f['k'] != 'KeepAlive':
                out.append(('C08', 'incoming connection %s got %s before its handshake was validated' % (a, f['k'])))
                break
            if f['k'] == 'Piece' and (good_hs_seq is None or seq < good_hs_seq):
                out.append(('C08', 'piece data sent to %s without a completed handshake' % a))
                break
        if bad_hs_seq is not None:
            later = [f['k'] for seq, vt, f in w if seq > bad_hs_seq + 3 and f['k'] != 'KeepAlive']
            if later:
                out.append(('C08', 'after a handshake for another torrent / from an unexpected peer the client still sent %s to %s' % (later[:3], a)))
            if a not in closed:
                out.append(('C08', 'connection %s stays open after an invalid handshake' % a))
    # O10 fatal input ends the connection task at once (virtual time does not advance)
    if scn.sc.get('family') == 'malformed':
        a0 = raw[0]['peers'][0]['addr']
        raws = [(seq, vt) for seq, vt, f in sends[a0] if f['k'] == 'Raw']
        if raws and a0 in incoming:
            t_fatal = raws[-1][1] if scn.sc.get('fatal') != 'trunc' else raws[-1][1]
            if a0 not in exits:
                out.append(('C06', 'malformed/truncated input (%s) does not terminate the connection task of %s' % (scn.sc.get('fatal'), a0)))
            elif exits[a0][0] > t_fatal + 20:
                out.append(('C06', 'malformed input at t=%d ms terminated the connection only at t=%d ms (%s)' % (t_fatal, exits[a0][0], exits[a0][1])))
    return out, {'wire': wire, 'sends': sends, 'exits': exits, 'closed': closed, 'disks': disks, 'incoming': incoming, 'outgoing': outgoing,
                 'names': names, 'panics': panics}


def oracle_c02(scn, raw, info):
    """honest swarm: complete, identical download; nothing panicked; session still running"""
    out = []
    t = scn.sc['torrent']
    data = sw.content(scn.total, scn.pat)
    files = info['disks'][-1][3] if info['disks'] else []
    got = {f['file']: (f['len'], f['sha']) for f in files}
    off = 0
    multi = len(t['files']) > 1
    for j, ln in enumerate(t['files']):
        rel = ('%s/f%d' % (t['name'], j)) if multi else t['name']
        want = (ln, hashlib.sha1(data[off:off + ln]).hexdigest())
        if got.get(rel) != want:
            out.append(('C02', 'output file %s is %s, expected %d bytes with SHA-1 %s..' % (rel, got.get(rel), ln, want[1][:12])))
        off += ln
    end = raw[-1]
    if end.get('ev') == 'End' and not end.get('session_alive'):
        out.append(('C02', 'the session task ended'))
    if len(info['disks'][-1][1]) != scn.np:
        out.append(('C02', 'only pieces %s of %d were obtained' % (sorted(info['disks'][-1][1]), scn.np)))
    return out


def oracle_c20(scn, raw, info):
    out = []
    KA = 120000
    for a, idx in info['names'].items():
        # connection task lifetime
        born = None
        for e in raw:
            if e['src'] == 'mgr' and e['ev'] in ('Accept', 'Spawn') and e['peer'] == a:
                born = e['vt']
                break
        if born is None:
            continue
        ex = info['exits'].get(a)
        end = ex[0] if ex else raw[-1]['vt']
        kas = [vt for seq, vt, f in info['wire'][a] if f['k'] == 'KeepAlive']
        # emission instants are taken from the timer hook (the harness reads the wire only at the end of its
        # own sleep slices); every emitted keep-alive must also arrive on the wire, later by at most one slice
        ticks = [e['vt'] for e in raw if e['src'] == 'h' and e['ev'] == 'End' and e['peer'] == a and e['trig']['k'] == 'TickKA'
                 and any(f['k'] == 'KeepAlive' for f in e['sent'])]
        # the client emits a keep-alive at every interval while the connection lives (except the tick that times out)
        want = [born + n * KA for n in range(1, 100) if born + n * KA < end - 5]
        if len(ticks) < len(want) or any(abs(x - y) > 20 for x, y in zip(ticks, want)):
            out.append(('C20', 'keep-alives to %s emitted at %s ms, expected one per interval at %s' % (a, ticks[:6], want[:6])))
        if len(kas) < len([t for t in ticks if t < raw[-1]['vt'] - 6000]) or any(k < t or k > t + 6000 for k, t in zip(kas, ticks)):
            out.append(('C20', 'keep-alives emitted at %s did not arrive on the wire of %s (observed %s)' % (ticks[:6], a, kas[:6])))
        # silence: last non keep-alive frame from the peer
        nonka = [vt for seq, vt, f in info['sends'][a] if f['k'] != 'KeepAlive' and vt <= end]
        last = max(nonka) if nonka else born
        # every interval with a non keep-alive frame => never closed for inactivity
        if ex and ex[3] == 'TickKA':          # the task ended on its keep-alive timer (decided by the trigger, not by the error text)
            if ex[0] - last > 3 * KA + 50:
                out.append(('C20', 'connection %s closed %d ms after its last message (more than three intervals)' % (a, ex[0] - last)))
            # "a connection delivering any other message at least once per interval is never closed for inactivity":
            # closing needs at least one full interval of silence (the client may be quicker than three intervals)
            if ex[0] - last < KA - 50:
                out.append(('C20', 'connection %s closed for inactivity only %d ms after a message' % (a, ex[0] - last)))
        if not ex and raw[-1]['vt'] - last > 3 * KA + 50:
            out.append(('C20', 'connection %s is still open %d ms after its last message' % (a, raw[-1]['vt'] - last)))
        if ex:
            # released: the manager forgot the peer
            final = [e for e in raw if e['src'] == 'mgr'][-1]
            if a in final['peers']:
                out.append(('C20', 'peer %s is still in the manager state after its connection ended' % a))
    return out


def oracle_c14(scn, raw, info):
    out = []
    mgr = [e for e in raw if e['src'] == 'mgr']
    if not mgr:
        return out
    final = mgr[-1]['peers']
    for a, m in final.items():
        last = None
        for seq, vt, f in info['wire'][a]:
            if f['k'] in ('Choke', 'Unchoke'):
                last = f['k']
        view_choked = last != 'Unchoke'
        if view_choked != m['ac'] and a not in info['exits']:
            out.append(('C14', 'peer %s was last told %s but the manager has am_choked=%s' % (a, last, m['ac'])))
    for e in mgr:
        reg = [a for a, m in e['peers'].items() if not m['ac'] and not m['o']]
        opt = [a for a, m in e['peers'].items() if not m['ac'] and m['o']]
        if len(reg) > 10 or len(opt) > 1:
            out.append(('C14', '%d peers unchoked + %d optimistic at manager event %s' % (len(reg), len(opt), e['ev'])))
            break
    return out


# ------------------------------------------------------------------------------------------
DESIGN_CFG = {
    # property: (quick cfg, thorough cfg) ; cfg = dict of constants for MC_Swarm
    'base': dict(Peers='{a, b}', NPieces=2, NBlocks='N2', EndGame=2, MaxUnchoked=1, OptRounds=3, KALimit=2, Pipeline='{2}', Rates='{0, 1}',
                 Fuel=3, ConnFuel=1, TickFuel=0, MaxQ=1, HS0='TRUE', BFMenu='{{1, 2}, {1}}', Own0='{}', Bugs='{}'),
}
ALL_INV = ('TypeOK OwnedImpliesStored NoCacheWhileChoked RxShape AnnouncedInOrder DeferredWhileChoked ReservedBacked '
           'AskOnlyAdvertisedAndLacked NoPanic PickSound SlotBound ViewAgreement KaBound ExtractOnlyComplete')
ALL_PROP = 'HaveStable RotationPolicy C01Step C08Step C09Step C10Step'


def design_check(pid, tier, kinds, over=None, invs=ALL_INV, props=ALL_PROP, timeout=1500):
    c = dict(DESIGN_CFG['base'])
    c.update(over or {})
    cfg = os.path.join(outdir(pid), 'design.cfg')
    with open(cfg, 'w') as f:
        f.write('SPECIFICATION MCSpec\nCONSTANTS\n')
        for k, v in c.items():
            f.write('  %s = %s\n' % (k, v) if k not in ('NBlocks',) else '  %s <- %s\n' % (k, v))
        f.write('  FrameKinds = {%s}\n' % ', '.join('"%s"' % k for k in kinds))
        f.write('VIEW MCView\nCONSTRAINT QBound\nINVARIANTS %s\nPROPERTIES %s\nCHECK_DEADLOCK FALSE\n' % (invs, props))
    res = run_tlc('MC_Swarm', cfg, pid, workers=int(os.environ.get('VERIF_WORKERS', 8 if tier == 'quick' else 14)), timeout=timeout if tier == 'quick' else int(os.environ.get('VERIF_DESIGN_TIMEOUT', 5400)), coverage=True, tag='design', xmx='12g' if tier == 'quick' else '24g')
    if res['violation']:
        import re
        m = re.search(r'(Invariant|property) (\w+) is violated', res['stdout'])
        raise_design = 'Swarm.tla (design level) violates %s' % (m.group(2) if m else '?')
        return res, raise_design
    return res, None


GEN_KINDS = ['Handshake', 'Bad', 'KeepAlive', 'Choke', 'Unchoke', 'Interested', 'NotInterested', 'Cancel', 'Have', 'Bitfield', 'Request', 'Piece']


def model_scripts(pid, n, kinds=None, fuel=7):
    """behaviours of the bounded model generated by TLC -simulate; returns scenario dicts"""
    cfg = os.path.join(outdir(pid), 'gen.cfg')
    with open(cfg, 'w') as f:
        f.write('SPECIFICATION GSpec\nCONSTANTS\n  Peers = {a, b}\n  NPieces = 2\n  NBlocks <- NB21\n  EndGame = 2\n  MaxUnchoked = 1\n  OptRounds = 3\n'
                '  KALimit = 2\n  Pipeline = {2}\n  Rates = {0}\n  Fuel = %d\n  ConnFuel = 2\n  TickFuel = 0\n  MaxQ = 2\n  HS0 = FALSE\n'
                '  BFMenu = {{1, 2}, {1}, {2}, {}}\n  Own0 = {}\n  Bugs = {}\n  FrameKinds = {%s}\nINVARIANTS Emit NoPanic ReservedBacked OwnedImpliesStored\nCHECK_DEADLOCK FALSE\n'
                % (fuel, ', '.join('"%s"' % k for k in (kinds or GEN_KINDS))))
    res = run_tlc('MC_SwarmGen', cfg, pid, workers=1, simulate='num=%d' % (3 * n), depth=90, seed_arg=seed(), timeout=300, tag='gen')
    if res['violation']:
        raise ToolError('MC_SwarmGen: invariant violated while generating behaviours:\n' + res['stdout'][-2000:])
    scripts = [tuple(map(lambda mv: tuple(tuple(sorted(x)) if isinstance(x, list) else x for x in mv), v[1])) for v in tlaval.find_printed(res['stdout'], 'SCRIPT')]
    # keep maximal distinct scripts (a script is printed again for every state after the fuel ran out)
    uniq = []
    seen = set()
    for sc in sorted(set(scripts), key=len, reverse=True):
        if not any(sc == u[:len(sc)] for u in uniq):
            uniq.append(sc)
        if len(uniq) >= n:
            break
    return [G.from_model(sc, i) for i, sc in enumerate(uniq)], res


def design_live(pid, tier):
    """C02 on the model: MC_SwarmLive.tla, honest environment + weak fairness, <>Complete"""
    cfg = os.path.join(outdir(pid), 'live.cfg')
    big = tier != 'quick'
    with open(cfg, 'w') as f:
        f.write('SPECIFICATION LSpec\nCONSTANTS\n  Peers = {%s}\n  NPieces = %d\n  NBlocks <- %s\n  EndGame = 2\n  MaxUnchoked = 1\n  OptRounds = 3\n'
                '  KALimit = 2\n  Pipeline = {2}\n  Rates = {0}\n  FrameKinds = {}\n  BFMenu = {}\n  Own0 = {}\n  Bugs = {}\n  HS0 = FALSE\n  Has <- %s\n  Leavers = {%s}\n'
                'INVARIANTS NoDeadEnd OwnedImpliesStored ReservedBacked\nPROPERTIES EventuallyComplete\nCHECK_DEADLOCK FALSE\n'
                % (('"a", "b"', 3, 'N1x3', 'HasA', '"b"') if big else ('"a", "b"', 2, 'N1x2', 'HasQ', '"b"')))
    res = run_tlc('MC_SwarmLive', cfg, pid, workers=8 if tier == 'quick' else 14, timeout=5400, tag='live', xmx='16g')
    viol = None
    import re
    if res['violation']:
        m = re.search(r'(Invariant|[Pp]roperty) (\w+) (is|was) violated', res['stdout'])
        viol = 'MC_SwarmLive.tla (honest environment, fairness) violates %s' % (m.group(2) if m else 'a property')
        return res, viol
    # the same swarm with the end game switched off (EndGame = 1: the situation of a torrent with ten or more pieces
    # missing): a reserved piece is never handed to a second peer, so progress depends on released pieces being re-offered
    cfg2 = os.path.join(outdir(pid), 'live_noendgame.cfg')
    with open(cfg2, 'w') as f:
        f.write(open(cfg).read().replace('EndGame = 2', 'EndGame = 1'))
    res2 = run_tlc('MC_SwarmLive', cfg2, pid, workers=8 if tier == 'quick' else 14, timeout=5400, tag='live2', xmx='16g')
    if res2['violation']:
        m = re.search(r'(Invariant|[Pp]roperty) (\w+) (is|was) violated', res2['stdout'])
        viol = 'MC_SwarmLive.tla (honest environment, fairness, no end game) violates %s' % (m.group(2) if m else 'a property')
    res['distinct'] = res.get('distinct', 0) + res2.get('distinct', 0)
    res['generated'] = res.get('generated', 0) + res2.get('generated', 0)
    res['stdout'] += res2['stdout'][-3000:]
    return res, viol


def run_families(pid, plan, rng):
    scs = []
    for gen, n, kw in plan:
        if gen == 'model':
            ms, _ = model_scripts(pid, n, **kw)
            scs.extend(ms)
            continue
        for _ in range(n):
            scs.append(gen(rng, **kw))
    S = [sw.Scenario(s) for s in scs]
    raw = sw.run_scenarios(pid, S)
    enc = [sw.Encoder(s, r).encode() for s, r in zip(S, raw)]
    return S, raw, enc


def two_level(pid, S, enc, obs_only=False, obs_all=False):
    """Level 1: is the execution a behaviour of Swarm.tla (SwarmTrace.tla, all invariants in every state)?
    Level 2, for every execution level 1 does not accept: the property-level reading (SwarmObs.tla).
    Returns (accepted by level 1, problems = violated formulas of either level, unexplained = executions that
    level 1 rejects although level 2 finds every property-level formula satisfied)."""
    if obs_only:
        acc, strict = 0, []
        rest = list(range(len(S)))
    else:
        acc, strict = sw.validate(pid, S, enc)
        # (thorough tier: level 2 reads every execution, also the ones level 1 accepts - a cross-check that the
        #  property-level formulas hold on behaviours of Swarm.tla)
        rest = list(range(len(S))) if obs_all else [i for i in range(len(S)) if i not in sw.LAST_ACCEPTED]
    probs = [dict(p, kind='invariant') for p in strict if p['inv']]
    rejected = [p for p in strict if not p['inv']]
    obs = sw.obs_all(pid, S, enc, rest) if rest else []
    probs += obs
    bad = {p['scenario'] for p in probs}
    unexplained = [p for p in rejected if p['scenario'] not in bad]
    return acc, probs, unexplained


def swarm_check(pid, tier, plan, kinds, design_over=None, extra_oracles=(), vacuity=None, assumptions=(), replay=None, rule='', live=False, need_actions=()):
    V = Verdict(pid, tier)
    rng = random.Random(seed())
    if replay:
        r = json.load(open(replay))['replay']
        S = [sw.Scenario(r['scenario'])]
        raw = sw.run_scenarios(pid, S)
        enc = [sw.Encoder(S[0], raw[0]).encode()]
        acc, probs, unexplained = two_level(pid, S, enc)
        found = [p for p in probs if sw.INV_PROP.get(p['inv']) == pid or pid in sw.INV_ALSO.get(p['inv'], ())]
        ov, info = oracles(S[0], raw[0])
        for f in extra_oracles:
            ov += f(S[0], raw[0], info)
        ov = [m for p, m in ov if p == pid]
        log('replay: %d events, trace problems %s, oracle findings %s' % (len(enc[0]), [(p['kind'], p['inv']) for p in found], ov[:3]))
        if found or ov:
            print('VIOLATION property=%s replay=%s' % (pid, replay))
            return 1
        return 0
    obs_only = bool(os.environ.get('VERIF_OBS_ONLY'))
    if obs_only:
        res, design_viol = {'stdout': ''}, None
    else:
        res, design_viol = design_live(pid, tier) if live else design_check(pid, tier, kinds, design_over)
    if design_viol:
        V.violation(design_viol, {'design': True, 'tlc': res['stdout'][-3000:]}, None)
    S, raw, enc = run_families(pid, plan, rng)
    acc, probs, unexplained = two_level(pid, S, enc, obs_only, obs_all=(tier != 'quick'))
    counted = 0
    for p in probs:
        i = p['scenario']
        ev = p['event']
        prop = sw.INV_PROP.get(p['inv'], 'C12')
        also = sw.INV_ALSO.get(p['inv'], ())
        level = 'SwarmObs.tla (property level)' if p['kind'] == 'property' else 'Swarm.tla'
        what = '%s of %s fails in the observed execution (scenario %d, event %s: %s)' % (
            p['inv'], level, i, p['event_index'], json.dumps({k: v for k, v in (ev or {}).items() if k not in ('st', 'mp', 'conn')})[:260])
        mine = (prop == pid) or (pid in also)
        if mine:
            V.violation(what, {'scenario': S[i].sc, 'problem': {k: v for k, v in p.items() if k != 'tlc_tail'}, 'tlc': p['tlc_tail'][-1200:]}, None)
            counted += 1
    for p in unexplained[:5]:
        log('NOTE: scenario %d is not a behaviour of Swarm.tla (no action explains event %s: %s) but violates no property-level formula of SwarmObs.tla'
            % (p['scenario'], p['event_index'], json.dumps({k: v for k, v in (p['event'] or {}).items() if k not in ('st', 'mp', 'conn', 'hs', 'sent')})[:200]))
    bind_fail = 0
    stats = {'events': sum(len(e) for e in enc), 'mgr_events': 0, 'completions': 0, 'rotations_executed': 0, 'exits': 0, 'pieces_served': 0,
             'requests_written': 0, 'bitfields_written': 0, 'haves_written': 0, 'keepalive_timeouts': 0, 'bad_piece_exits': 0}
    for s, r in zip(S, raw):
        ov, info = oracles(s, r)
        for f in extra_oracles:
            ov += f(s, r, info)
        seen = set()
        for prop, msg in ov:
            if prop == 'BIND':
                bind_fail += 1
                V.violation('binding broken: ' + msg, {'scenario': s.sc, 'oracle': msg}, None)
            elif prop == pid and msg not in seen:
                seen.add(msg)
                V.violation(msg + ' [family %s]' % s.sc.get('family'), {'scenario': s.sc, 'oracle': msg}, None)
        for e in r:
            if e['src'] == 'mgr':
                stats['mgr_events'] += 1
                if e['ev'] == 'PieceDone':
                    stats['completions'] += 1
                if e['ev'] == 'Rotate':
                    stats['rotations_executed'] += 1
            elif e['src'] == 'h' and e['ev'] == 'Exit':
                stats['exits'] += 1
                stats['keepalive_timeouts'] += e['trig'].get('k') == 'TickKA'
                stats['bad_piece_exits'] += e['trig'].get('k') == 'Piece'
            elif e['src'] == 'net' and e['ev'] == 'Out':
                k = e['f']['k']
                stats['pieces_served'] += k == 'Piece'
                stats['requests_written'] += k == 'Request'
                stats['bitfields_written'] += k == 'Bitfield'
                stats['haves_written'] += k == 'Have'
    vac = None
    exercised = action_coverage(res['stdout'])[0]
    for a in need_actions:
        if a not in exercised and not design_viol:
            vac = 'action %s of Swarm.tla was never taken in the design run: the property was not exercised on the model' % a
    if vacuity:
        for key, minimum in vacuity.items():
            if stats.get(key, 0) < minimum:
                vac = 'the runs exercised %s only %d times (need >= %d): the property was not evaluated on the implementation' % (key, stats.get(key, 0), minimum)
    cov = {
        'states': res.get('distinct', 0), 'transitions': res.get('generated', 0),
        'traces_validated_against_impl': acc,
        'samples': [{'family': s.sc.get('family'), 'geometry': s.sc.get('geo'), 'peers': len(s.sc['peers']), 'steps': s.sc['steps'][:6]} for s in S[:: max(1, len(S) // 3)]][:3],
        'scenarios': len(S), 'trace_events_validated': stats['events'], 'design_depth': res.get('depth'),
        'executions_not_explained_by_Swarm_tla_but_clean_at_property_level': len(unexplained),
        'design_actions_exercised': exercised,
        'impl_run_statistics': stats, 'exhaustive': True,
        'rule': rule + ' Design level: TLC explores every interleaving of the bounded MC_Swarm instance (adversarial remotes, frame menu %s). '
                'Implementation level: seeded scenario families run the real Session/PeerHandler/Connection stack on in-memory streams under a paused clock; '
                'every recorded event is consumed by one action of Swarm.tla with the logged post-state (SwarmTrace.tla), all invariants are evaluated in every state; '
                'an execution that SwarmTrace.tla does not accept is re-read at property level by SwarmObs.tla (no action of Swarm.tla used; property formulas and Obs* step formulas); '
                'wire/disk oracles are evaluated on the same runs. Where the plan contains the family "model", the scripts are behaviours of MC_SwarmGen.tla generated by TLC -simulate '
                '(history variable `script`) and replayed into the real client (specification -> implementation direction).' % sorted(kinds),
    }
    return V.finish(cov, list(assumptions) + ['in-memory duplex streams and a single-threaded runtime with paused clock replace TCP and the multi-threaded runtime',
                                            'block data is abstracted to good/corrupt in the specification; SHA-1 trusted',
                                            'broadcast queues are drained between two choke rotations (10 s apart)'], vacuous=vac)


# ------------------------------------------------------------------------------------------
def mult(tier):
    return 1 if tier == 'quick' else 8


def check_c01(tier, replay=None):
    m = mult(tier)
    plan = [(G.adversarial, 40 * m, {'kinds': ['Unchoke', 'Unchoke', 'Choke', 'Piece', 'Piece', 'PieceBad', 'PieceOdd', 'Have', 'Bitfield', 'serve', 'advance', 'close']}),
            (G.honest, 8 * m, {}), (G.upload, 8 * m, {}), (G.midflight, 10 * m, {}), (G.diskfault, 10 * m, {}), (G.delayed_adversarial, 10 * m, {}), ('model', 20 * m, {})]
    return swarm_check('C01', tier, plan, need_actions=('HPiece', 'MPieceDone'), kinds= ['Unchoke', 'Bitfield', 'Piece', 'Bad'],
                       design_over=dict(Fuel=3, BFMenu='{{1, 2}}', Peers='{a, b}', NBlocks='N1x2') if tier == 'quick' else dict(Fuel=4, MaxQ=2),
                       vacuity={'completions': 10, 'bad_piece_exits': 1}, replay=replay,
                       rule='C01: disk holds only good pieces (TDisk binds the spec store to the scanned directory), owned/served/advertised implies stored, a corrupt assembly ends the task without a write.')


def check_c02(tier, replay=None):
    m = mult(tier)
    plan = [(G.honest, 32 * m, {}), (G.handover, 10 * m, {}), (G.dupaddr, 8 * m, {}), (G.endgame_cancel, 8 * m, {}), (G.nothing_to_assign, 8 * m, {}), (G.reannounce, 6 * m, {}), (G.orphaned, 9 * m, {}), (G.delayed_honest, 10 * m, {})]
    return swarm_check('C02', tier, plan, need_actions=(), kinds= ['Unchoke', 'Bitfield', 'Piece', 'Have'],
                       design_over=dict(Fuel=3, BFMenu='{{1, 2}}') if tier == 'quick' else dict(Fuel=4, MaxQ=2),
                       extra_oracles=[oracle_c02], vacuity={'completions': 40}, replay=replay, live=True,
                       assumptions=['liveness on the implementation is tested with a virtual-time bound of 25 s after the last scripted action',
                                    'model: honest environment of MC_SwarmLive.tla (a staying peer whose connection the client closed connects again), weak fairness'],
                       rule='C02: honest swarms (every piece offered by a staying honest peer; other peers leave at arbitrary points; random geometry, distribution, '
                            'segmentation, incoming/outgoing) must end with byte-identical output files, no panic, session alive.')


def check_c08(tier, replay=None):
    m = mult(tier)
    plan = [(G.handshakes, 40 * m, {}), (G.adversarial, 8 * m, {}), (G.dupaddr, 6 * m, {}), ('model', 20 * m, {})]
    return swarm_check('C08', tier, plan, need_actions=('HHandshake', 'HReject'), kinds= ['Handshake', 'Bad', 'Bitfield', 'Request'],
                       design_over=dict(HS0='FALSE', Fuel=3, BFMenu='{{1, 2}}') if tier == 'quick' else dict(HS0='FALSE', Fuel=5),
                       vacuity={'exits': 10}, replay=replay,
                       rule='C08: good / wrong-hash / wrong-id / wrong-protocol / late / repeated / missing handshakes on incoming and outgoing connections with a seeded store.')


def check_c09(tier, replay=None):
    m = mult(tier)
    plan = [(G.upload, 36 * m, {}), (G.optimistic, 6 * m, {}), (G.delayed_upload, 10 * m, {}), ('model', 12 * m, {})]
    return swarm_check('C09', tier, plan, need_actions=('HRequest', 'MRequest', 'MRotate', 'HBroadState'), kinds= ['Bitfield', 'Request', 'Interested', 'NotInterested'] if tier == 'quick' else ['Unchoke', 'Choke', 'Bitfield', 'Piece', 'Request', 'Interested', 'NotInterested'],
                       design_over=dict(Peers='{a}', NPieces=2, NBlocks='N1x2', Own0='{1}', Fuel=5, BFMenu='{{2}}', TickFuel=1, Rates='{0}') if tier == 'quick'
                       else dict(Peers='{a}', NPieces=2, NBlocks='N1x2', Own0='{1}', Fuel=8, BFMenu='{{2}, {}}', TickFuel=2, Rates='{0}'),   # 1.6 M states, 2 min
                       vacuity={'pieces_served': 15}, replay=replay,
                       rule='C09: after a download a leecher requests in-range, zero-length, 16 KiB, over-long, out-of-range, wrapping (begin+len >= 2^32), unknown-index and '
                            'not-owned ranges, before and after being choked by a rotation; every Piece frame on the wire must answer an outstanding request with the stored bytes while unchoked.')


def check_c10(tier, replay=None):
    m = mult(tier)
    plan = [(G.honest, 20 * m, {}), (G.adversarial, 20 * m, {}), (G.reassign, 25 * m, {}), (G.endgame_cancel, 12 * m, {}), (G.choked_delivery, 10 * m, {}), (G.out_of_order, 10 * m, {}), (G.delayed_reassign, 8 * m, {}), ('model', 20 * m, {})]
    return swarm_check('C10', tier, plan, need_actions=('HPiece', 'HReply'), kinds= ['Unchoke', 'Choke', 'Bitfield', 'Piece'],
                       design_over=dict(NBlocks='N3b', Fuel=6, Peers='{a}', BFMenu='{{1, 2}}') if tier == 'quick' else dict(NBlocks='N3b', Fuel=4, BFMenu='{{1, 2}}'),   # 3.2 M states
                       vacuity={'requests_written': 100, 'completions': 20}, replay=replay,
                       rule='C10: requests on the wire are proper blocks of the assigned piece; RequestsTile/RxShape and the logged requested/left queues are checked at every task step.')


def check_c11(tier, replay=None):
    m = mult(tier)
    plan = [(G.honest, 20 * m, {'npeers': 3}), (G.upload, 12 * m, {}), (G.midflight, 20 * m, {}), (G.init_window, 16 * m, {}), (G.delayed_honest, 8 * m, {})]
    return swarm_check('C11', tier, plan, need_actions=('HBroadHave', 'MInit', 'HUnchoke'), kinds= ['Handshake', 'Unchoke', 'Bitfield', 'Piece'],
                       design_over=dict(HS0='FALSE', Fuel=4, NBlocks='N1x2', BFMenu='{{1, 2}}') if tier == 'quick' else dict(HS0='FALSE', Fuel=5, NBlocks='N1x2', MaxQ=2),
                       vacuity={'bitfields_written': 20, 'haves_written': 20}, replay=replay,
                       assumptions=['a connection task lags fewer than 32 broadcasts behind (tokio broadcast capacity)'],
                       rule='C11: bitfields on the wire equal the stored set, Have only after store, deferred announcements delivered in completion order (AnnouncedInOrder on ghost due/ann).')


def check_c12(tier, replay=None):
    m = mult(tier)
    plan = [(G.adversarial, 50 * m, {}), (G.honest, 6 * m, {}), (G.reassign, 30 * m, {}), (G.stale_choke, 10 * m, {}), (G.choke_race, 30 * m, {}), (G.dupaddr, 10 * m, {}), (G.endgame_cancel, 8 * m, {}), (G.nothing_to_assign, 10 * m, {}), (G.choked_delivery, 8 * m, {}), (G.stale_kill, 10 * m, {}), (G.accept_limit, 4 * m, {}), (G.choke_idle_have, 8 * m, {}), (G.delayed_adversarial, 20 * m, {}), (G.delayed_reassign, 12 * m, {}), ('model', 30 * m, {})]
    return swarm_check('C12', tier, plan, need_actions=('MUnchoke', 'MChoke', 'MPieceDone', 'MKill'), kinds= ['Unchoke', 'Choke', 'Bitfield', 'Piece'] if tier == 'quick' else ['Unchoke', 'Choke', 'Bitfield', 'Piece', 'Have'],
                       design_over=dict(Fuel=3, BFMenu='{{1, 2}}') if tier == 'quick' else dict(Fuel=3, BFMenu='{{1, 2}, {1}}'),   # 2.3 M states, 4 min
                       vacuity={'mgr_events': 500, 'completions': 5}, replay=replay,
                       rule='C12: repeated/out-of-order choke, unchoke, have, bitfield, blocks, disconnects over several peers; the whole manager state after every command must be '
                            'the one the specification action produces, ReservedBacked/HaveStable/NoPanic evaluated in every state.')


def check_c13(tier, replay=None):
    m = mult(tier)
    plan = [(G.adversarial, 25 * m, {}), (G.honest, 12 * m, {'gname': 'g12'}), (G.honest, 8 * m, {}), (G.reassign, 12 * m, {}), (G.endgame10, 12 * m, {}), (G.rarest, 20 * m, {}), (G.nothing_to_assign, 8 * m, {}), (G.orphaned, 6 * m, {}), ('model', 12 * m, {})]
    return swarm_check('C13', tier, plan, need_actions=('MUnchoke', 'MBitfield', 'MHave'), kinds= ['Unchoke', 'Bitfield', 'Have'],
                       design_over=dict(Fuel=2, NPieces=3, NBlocks='N1x3', BFMenu='{{1, 2}, {3}}') if tier == 'quick' else dict(Fuel=3, NPieces=3, NBlocks='N1x3', BFMenu='{{1, 2}, {3}, {1, 2, 3}}'),
                       vacuity={'mgr_events': 500}, replay=replay,
                       rule='C13: every logged piece choice must be in PickSet (rarest among what the peer advertises and the client lacks, reserved pieces only in end game, none iff no candidate); '
                            '12-piece torrents cover both sides of END_GAME_LIMIT = 10.')


def check_c14(tier, replay=None):
    m = mult(tier)
    plan = [(G.choking, 20 * m, {}), (G.slots, 10 * m, {}), (G.rotation_race, 16 * m, {}), (G.optimistic, 5 * m, {}), (G.delayed_choking, 6 * m, {}), (G.late_joiner, 8 * m, {})]
    return swarm_check('C14', tier, plan, need_actions=('MRotate', 'MBitfield', 'HBroadState'), kinds= ['Bitfield', 'Interested'],
                       design_over=dict(Peers='{a, b}', NPieces=1, NBlocks='N1', TickFuel=1, Fuel=2, MaxUnchoked=1, BFMenu='{{1}}', OptRounds=1) if tier == 'quick'
                       else dict(Peers='{a, b, c}', NPieces=1, NBlocks='N1', TickFuel=1, Fuel=1, MaxUnchoked=1, BFMenu='{{1}}', OptRounds=1, MaxQ=2),   # 6.3 M states, 8 min
                       extra_oracles=[oracle_c14], vacuity={'rotations_executed': 10}, replay=replay,
                       rule='C14: 3-14 peers against the real limits (10 + 1), interest flips, injected rate vectors with ties, bitfield bursts, 3-5 rotations; SlotBound in every '
                            'state, RotationPolicy on every executed rotation, ViewAgreement at quiescent states, last Choke/Unchoke on the wire against the manager.')


def check_c20(tier, replay=None):
    m = mult(tier)
    plan = [(G.keepalive, 25 * m, {})]
    return swarm_check('C20', tier, plan, need_actions=('HTickKA', 'HKeepAlive'), kinds= ['KeepAlive', 'Have', 'Bad'],
                       design_over=dict(Peers='{a}', NPieces=1, NBlocks='N1', TickFuel=6, Fuel=3, Rates='{0}', BFMenu='{{1}}') if tier == 'quick'
                       else dict(Peers='{a, b}', NPieces=1, NBlocks='N1', TickFuel=5, Fuel=3, Rates='{0}', BFMenu='{{1}}'),
                       extra_oracles=[oracle_c20], vacuity={'keepalive_timeouts': 5}, replay=replay,
                       rule='C20: silence from the start / after the handshake / keep-alives only / live / live then silent / around the 120 s boundaries (+-1 ms) in virtual time; '
                            'keep-alive emission times, time of the timeout close and release of the peer are checked on the wire and in the manager state.')


def oracle_c19(scn, raw, info):
    out = []
    if scn.sc.get('family') != 'tracker':
        return out
    nfail = scn.sc['nfail']
    listed = raw[0]['peers'][1]['addr']
    live = raw[0]['peers'][0]['addr']
    hs_t = [vt for seq, vt, f in info['wire'][listed] if f['k'] == 'Handshake']
    # the moment the good reply reached the manager (no assumption about the client's retry delays)
    good_t = [e['vt'] for e in raw if e['src'] == 'mgr' and e['ev'] == 'TrackerPeers' and e.get('n', 0) > 0]
    if not hs_t:
        out.append(('C19', 'after %d failed announces and a good one the listed peer %s was never contacted' % (nfail, listed)))
    elif good_t and hs_t[0] > good_t[0] + 1000:
        out.append(('C19', 'listed peer contacted only at %d ms, the good reply arrived at %d ms (%d failed announces before)' % (hs_t[0], good_t[0], nfail)))
    # the live connection keeps being served while announces fail
    want = {'Interested': 'RecvInterested', 'NotInterested': 'RecvNotInterested', 'Have': 'RecvHave', 'Choke': 'RecvChoke'}
    mgr = [(e['vt'], e['ev']) for e in raw if e['src'] == 'mgr' and e['peer'] == live]
    late = 0
    for seq, vt, f in info['sends'][live]:
        if f['k'] in want and vt < (good_t[0] if good_t else nfail * 1000):
            if not any(ev == want[f['k']] and vt <= t <= vt + 100 for t, ev in mgr):
                late += 1
    if late:
        out.append(('C19', '%d commands of the connected peer were not handled while announces were failing (%d failures)' % (late, nfail)))
    end = raw[-1]
    if end.get('ev') == 'End' and not end.get('session_alive'):
        out.append(('C19', 'the session task ended'))
    # a failed announce (HTTP error, failure reason) yields no peers: the address that only such replies list stays untouched
    if end.get('ev') == 'End' and any(a.startswith('10.9.9.9') for a in end.get('connects', [])):
        out.append(('C19', 'the client contacted 10.9.9.9:7777, which is listed only in a failed announce (HTTP error / failure reason)'))
    return out


def check_c19(tier, replay=None):
    import doc_checks
    pid = 'C19'
    V = Verdict(pid, tier)
    rng = random.Random(seed())
    if replay:
        r = json.load(open(replay))['replay']
        if 'input_hex' in r:
            o = run_mbt([{'op': 'tracker_resp', 'input': r['input_hex']}])[0]
            bad = doc_checks.judge_reply(r['reading'], o)
        else:
            S = [sw.Scenario(r['scenario'])]
            raw = sw.run_scenarios(pid, S)
            ov, info = oracles(S[0], raw[0])
            bad = [m for p, m in ov + oracle_c19(S[0], raw[0], info) if p == pid]
        log('replay => %s' % (bad,))
        if bad:
            print('VIOLATION property=%s replay=%s' % (pid, replay))
            return 1
        return 0
    # (1) reply parsing against TrackerDoc.tla
    states, transitions, docs = doc_checks.tracker_reply_docs(pid, tier)
    cases = [{'op': 'tracker_resp', 'input': doc_checks.b(d['bytes']).hex()} for _, _, d in docs]
    junk = []
    for _ in range(150 if tier == 'quick' else 3000):
        base = bytearray(doc_checks.b(rng.choice(docs)[2]['bytes']))
        for _ in range(rng.randrange(1, 4)):
            if base:
                i = rng.randrange(len(base))
                if rng.random() < 0.5:
                    base[i] = rng.choice(b'ilde:0-19\x00\xff')
                else:
                    del base[i:i + rng.randrange(1, 4)]
        junk.append(bytes(base))
    obs = run_mbt(cases + [{'op': 'tracker_resp', 'input': j.hex()} for j in junk])
    agree = accepted = 0
    for (order, choice, d), o in zip(docs, obs):
        bad = doc_checks.judge_reply(d['reading'], o)
        accepted += bool(o.get('ok'))
        if bad:
            V.violation('%s; reply %r' % (bad, doc_checks.b(d['bytes'])[:300]), {'input_hex': doc_checks.b(d['bytes']).hex(), 'reading': d['reading'], 'observed': o}, None)
        else:
            agree += 1
    for j, o in zip(junk, obs[len(cases):]):
        if 'panic' in o or 'crash' in o:
            V.violation('reply parser panicked on %r: %s' % (j[:200], o.get('panic') or o.get('crash')), {'input_hex': j.hex(), 'reading': None, 'observed': o}, None)
        else:
            agree += 1
    # (2) design: manager x tracker task x bounded channel x join (liveness under fairness)
    res = run_tlc('TrackerLoop', 'TrackerLoop.cfg' if tier == 'quick' else 'TrackerLoop_Deep.cfg', pid, workers=4, timeout=900, tag='trackerloop')
    if res['violation']:
        V.violation('TrackerLoop.tla (design level) violates a temporal property', {'design': True, 'tlc': res['stdout'][-3000:]}, None)
    states += res.get('distinct', 0)
    transitions += res.get('generated', 0)
    # (3) the real session with the scripted tracker transport
    fails = [0, 1, 2, 5, 63, 64, 65, 66] if tier == 'quick' else [0, 1, 2, 3, 5, 10, 30, 62, 63, 64, 65, 66, 67, 70, 120, 200]
    scs = [G.tracker(rng, nf) for nf in fails]
    # every kind of failed announce at least once, in particular an HTTP error / failure reason whose body lists somebody else
    scs += [G.tracker(rng, 3, must=[7]), G.tracker(rng, 4, must=[8, 0]), G.tracker(rng, 6, must=[1, 2, 3, 4, 5, 6])]
    S = [sw.Scenario(s) for s in scs]
    raw = sw.run_scenarios(pid, S)
    enc = [sw.Encoder(s, r).encode() for s, r in zip(S, raw)]
    acc, probs, unexplained = two_level(pid, S, enc)
    for p in probs:
        V.violation('tracker scenario %d (%d failures): %s %s violated in the observed execution' % (p['scenario'], scs[p['scenario']]['nfail'], p['kind'], p['inv']),
                    {'scenario': scs[p['scenario']], 'problem': {k: v for k, v in p.items() if k != 'tlc_tail'}}, None)
    for p in unexplained[:3]:
        log('NOTE: tracker scenario %d is not a behaviour of Swarm.tla (event %s) but violates no property-level formula' % (p['scenario'], p['event_index']))
    for s, r in zip(S, raw):
        ov, info = oracles(s, r)
        for prop, msg in ov + oracle_c19(s, r, info):
            if prop == pid:
                V.violation(msg, {'scenario': s.sc, 'oracle': msg}, None)
    vac = None if accepted >= 5 else 'too few accepted replies'
    cov = {
        'states': states, 'transitions': transitions, 'traces_validated_against_impl': agree + acc,
        'samples': [{'reply': doc_checks.b(d['bytes']).decode('latin1')[:160], 'failure': d['reading']['failure'], 'peers': len(d['reading']['peers'])} for _, _, d in docs[:: max(1, len(docs) // 4)]][:4],
        'exhaustive': True, 'evaluations': len(cases) + len(junk) + len(scs), 'reply_documents': len(cases), 'mutated_replies': len(junk),
        'failure_run_lengths': fails, 'accepted_replies': accepted,
        'rule': 'reply documents from the TrackerDoc.tla variant menus (failure reason, interval absent/negative/wrong type, peers absent/not a list/compact string, entries without ip, '
                'ids of 19/20/21 bytes, negative or string ports, non-dictionary entries, two entry orders) with the reading computed by TLC; TrackerLoop.tla checked under fairness for '
                'EventuallyContacted / PeersServed / NeverStuck; the real session runs with a scripted tracker transport (refused, HTTP 4xx/5xx, garbage, failure reason, malformed reply) for '
                'runs of failures around the channel capacity (63..66) while a connected peer keeps sending commands',
    }
    return V.finish(cov, ['tracker transport is scripted at the reqwest boundary (hook H3); the 1 s retry delay runs in virtual time',
                          'the channel capacity in TrackerLoop.tla is scaled to 2 (64 in rdest); the implementation runs use the real 64'], vacuous=vac)


def c06_task_level(V, tier, rng):
    """C06 at the level of the connection task: fatal input must end the task at that very instant
    (not minutes later through the keep-alive timeout), a flood after it must not be buffered."""
    n = 30 if tier == 'quick' else 300
    scs = [G.malformed(rng) for _ in range(n)]
    S = [sw.Scenario(s) for s in scs]
    raw = sw.run_scenarios('C06', S)
    enc = [sw.Encoder(s, r).encode() for s, r in zip(S, raw)]
    acc, probs, unexplained = two_level('C06', S, enc)
    for p in probs:
        if p['inv'] == 'NoPanic':
            V.violation('connection task run with fatal input %s: %s %s violated at event %s' % (
                scs[p['scenario']].get('fatal'), p['kind'], p['inv'], json.dumps(p['event'])[:200]),
                {'scenario': scs[p['scenario']], 'level': 'task'}, None)
    ok = 0
    for s, r in zip(S, raw):
        ov, info = oracles(s, r)
        bad = [m for p, m in ov if p == 'C06']
        for m in bad:
            V.violation(m, {'scenario': s.sc, 'level': 'task', 'oracle': m}, None)
        ok += not bad
        for e in r:
            if e['src'] == 'h' and e['st'].get('blen', 0) > 4 + 65536:
                V.violation('connection task of %s buffers %d bytes' % (e['peer'], e['st']['blen']), {'scenario': s.sc, 'level': 'task'}, None)
                break
    return {'task_level_scenarios': n, 'task_level_ok': ok, 'task_level_traces_accepted': acc}
