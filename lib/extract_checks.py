"""C03 (Geometry.tla) and C04 (PathSafety.tla): piece/file geometry and extraction paths,
replayed against Metainfo::piece_length / file_piece_ranges and the real Extractor."""
import hashlib
import json
import os
import random

from common import *
import tlaval
from bencode_checks import benc


def content(n, pat):
    return bytes((i * 131 + pat) % 251 for i in range(n))


def scratch_root(pid):
    base = os.environ.get('VERIF_SCRATCH') or os.path.join(OUT, 'scratch')
    d = os.path.join(base, '%s-%d' % (pid, os.getpid()))
    os.makedirs(d, exist_ok=True)
    return d


def torrent_bytes(name, pl, data, files=None, extra=None):
    pieces = b''.join(hashlib.sha1(data[i:i + pl]).digest() for i in range(0, len(data), pl)) if pl > 0 else b''
    info = {b'name': name, b'piece length': pl, b'pieces': pieces}
    if files is None:
        info[b'length'] = len(data)
    else:
        info[b'files'] = [{b'length': l, b'path': p} for l, p in files]
    doc = {b'announce': b'http://tracker.invalid/announce', b'info': info}
    if extra:
        doc.update(extra)
    return benc(doc)


def geo_cfg(pid, tag, pls, fls, maxfiles, arith):
    path = os.path.join(outdir(pid), 'geo_%s.cfg' % tag)
    with open(path, 'w') as f:
        f.write('SPECIFICATION %s\nCONSTANTS\n  PLs <- %s\n  FLsOf <- %s\n  MaxFiles = %d\n' % ('ArithSpec' if arith else 'Spec', pls, fls, maxfiles))
        f.write('INVARIANTS PartitionArith\n' if arith else 'INVARIANTS Partition PartitionArith Extracted Tiling\n')
        f.write('CHECK_DEADLOCK FALSE\n')
    return path


def judge_extract(exp, o):
    """exp: {'files': [(relpath, sha1, len)], 'plens': [...], 'total': n}"""
    if 'panic' in o or 'crash' in o:
        return 'panic: %s' % (o.get('panic') or o.get('crash'))
    if o.get('parse') != 'ok':
        return 'consistent torrent rejected: %s' % o.get('parse')
    acc = o['acc']
    if 'panic' in acc:
        return 'accessor panicked: %s' % acc['panic']
    if acc['piece_lengths'] != exp['plens']:
        return 'piece lengths %s, expected %s' % (acc['piece_lengths'], exp['plens'])
    if acc['total_length'] != exp['total']:
        return 'total length %s, expected %s' % (acc['total_length'], exp['total'])
    if o['cmd'] != 'Done':
        return 'extraction failed: %s' % o['cmd']
    got = {t[0]: (t[2], t[3]) for t in o['tree'] if t[1] == 'f' and not t[0].endswith('.piece')}
    for rel, sha, ln in exp['files']:
        if rel not in got:
            return 'file %s was not written (have %s)' % (rel, sorted(got))
        if got[rel] != (ln, sha):
            return 'file %s has length %d sha %s.., expected length %d sha %s..' % (rel, got[rel][0], got[rel][1][:10], ln, sha[:10])
    extra = set(got) - {r for r, _, _ in exp['files']}
    if extra:
        return 'unexpected files written: %s' % sorted(extra)
    return None


def check_c03(tier, replay=None):
    pid = 'C03'
    V = Verdict(pid, tier)
    rng = random.Random(seed())
    root = scratch_root(pid)
    if replay:
        r = json.load(open(replay))['replay']
        c = dict(r['case'])
        c['scratch'] = os.path.join(root, 'replay')
        o = run_mbt([c])[0]
        bad = judge_extract(r['expect'], o)
        log('replay: pl=%s files=%s -> %s => %s' % (r.get('pl'), r.get('fl'), json.dumps(o)[:600], bad))
        if bad:
            print('VIOLATION property=%s replay=%s' % (pid, replay))
            return 1
        return 0
    plans = [('small', 'SmallPLs', 'QuickFLs', 4, False), ('big', 'BigPLs', 'BigFLs', 2, True)] if tier == 'quick' else \
            [('small', 'SmallPLs', 'SmallFLs', 4, False), ('big', 'BigPLs', 'BigFLs', 3, True), ('huge', 'HugePLs', 'HugeFLs', 2, True)]
    states = transitions = 0
    cases, exps, metas = [], [], []
    for tag, pls, fls, mf, arith in plans:
        dump = os.path.join(outdir(pid), 'geo_%s.dump' % tag)
        res = run_tlc('MC_Geometry', geo_cfg(pid, tag, pls, fls, mf, arith), pid, workers=8 if tier == 'quick' else 12,
                      dump=dump, timeout=2400, tag='geo_' + tag)
        if res['violation']:
            raise ToolError('Geometry.tla violates its own invariants:\n' + res['stdout'][-3000:])
        states += res['distinct']
        transitions += res['generated']
        for st in tlaval.iter_dump(dump):
            if st['pc'] != 0:
                continue
            pl, fl, e = st['pl'], st['fl'], st['exp']
            pat = rng.randrange(251)
            data = content(e['total'], pat)
            if len(fl) == 1:
                files, name = None, b'single.bin'
                expfiles = [('run/single.bin', hashlib.sha1(data).hexdigest(), fl[0])]
            else:
                name = b'dir'
                files = [(l, b'f%d' % j) for j, l in enumerate(fl)]
                expfiles = [('run/dir/f%d' % j, hashlib.sha1(data[off:off + l]).hexdigest(), l)
                            for j, (l, off) in enumerate(zip(fl, e['offs']))]
            t = torrent_bytes(name, pl, data, files)
            cases.append({'op': 'extract', 'torrent': t.hex(), 'content_len': e['total'], 'pat': pat, 'pl': pl,
                          'scratch': os.path.join(root, 'c%d' % len(cases))})
            exps.append({'files': expfiles, 'plens': e['plens'], 'total': e['total']})
            metas.append((pl, fl))
        os.remove(dump)
    obs = run_mbt(cases)
    agree = 0
    for c, e, o, (pl, fl) in zip(cases, exps, obs, metas):
        bad = judge_extract(e, o)
        if bad:
            V.violation('%s; piece length %d, file lengths %s' % (bad, pl, fl),
                        {'case': {k: v for k, v in c.items() if k != 'scratch'}, 'expect': e, 'pl': pl, 'fl': fl, 'observed': o}, None)
        else:
            agree += 1
    import shutil
    shutil.rmtree(root, ignore_errors=True)
    cov = {
        'states': states, 'transitions': transitions, 'traces_validated_against_impl': agree,
        'samples': [{'piece_length': pl, 'file_lengths': fl, 'expected_piece_lengths': e['plens']} for (pl, fl), e in list(zip(metas, exps))[:: max(1, len(metas) // 6)]][:6],
        'exhaustive': True, 'evaluations': len(cases),
        'rule': 'every geometry (piece length x list of file lengths, incl. 0 and several files per piece) is an initial state of Geometry.tla; TLC checks '
                'partition, block tiling and the element-wise extractor model on it and hands piece lengths and file offsets to the replay: the real '
                'Metainfo/Extractor run on position-dependent content in a scratch directory and every output file is compared by length and SHA-1',
    }
    return V.finish(cov, ['content is a position-dependent pattern (period 251), not arbitrary bytes',
                          'multi-file paths use rdest\'s dialect (path is one byte string)',
                          'real-size piece lengths are sampled around 16 KiB and 256 KiB'])


# ==========================================================================================
# C04
def comp_join(seq, rootpath):
    parts = []
    for i, c in enumerate(seq):
        parts.append(rootpath if c == 'ROOT' else c)
    s = '/'.join(parts)
    if seq and seq[0] == 'ROOT':
        return s
    return s


def judge_paths(exp, o):
    if 'panic' in o or 'crash' in o:
        return 'panic: %s' % (o.get('panic') or o.get('crash'))
    if o.get('parse') != 'ok':
        return None if exp['class'] != 'clean' else 'clean torrent rejected: %s' % o.get('parse')
    area = '/'.join(exp['area'])
    created = [t for t in o['tree'] if not (t[0].endswith('.piece') and os.path.dirname(t[0]) == 'run') and t[0] != 'run']
    for rel, kind, ln, sha in created:
        if not (rel == area or rel.startswith(area + '/')):
            # directories on the way down to the area are fine (run/.. -> area)
            if kind == 'd' and (area + '/').startswith(rel + '/'):
                continue
            return 'created %s %s outside the allowed area %s/' % ('directory' if kind == 'd' else 'file', rel, area)
    if exp['class'] == 'clean':
        if o['cmd'] != 'Done':
            return 'clean paths refused: %s' % o['cmd']
        files = {t[0]: (t[2], t[3]) for t in created if t[1] == 'f'}
        for rel, ln, sha in exp['files']:
            if files.get(rel) != (ln, sha):
                return 'file expected at %s (len %d) not found there; files: %s' % (rel, ln, sorted(files))
    return None


def check_c04(tier, replay=None):
    pid = 'C04'
    V = Verdict(pid, tier)
    rng = random.Random(seed())
    root = scratch_root(pid)
    if replay:
        r = json.load(open(replay))['replay']
        c, e = build_path_case(r['name'], r['path'], r['multi'], r['exp'], os.path.join(root, 'replay'), 7, r.get('one_entry', False))
        o = run_mbt([c])[0]
        bad = judge_paths(e, o)
        log('replay: name=%s path=%s multi=%s -> cmd=%s tree=%s => %s' % (r['name'], r['path'], r['multi'], o.get('cmd'), o.get('tree'), bad))
        if bad:
            print('VIOLATION property=%s replay=%s' % (pid, replay))
            return 1
        return 0
    maxlen = 2 if tier == 'quick' else 3
    cfg = os.path.join(outdir(pid), 'paths.cfg')
    with open(cfg, 'w') as f:
        f.write('SPECIFICATION Spec\nCONSTANTS\n  Comps <- MCComps\n  MaxLen = %d\nINVARIANTS CleanStaysInside CleanEndsAtLoc\nCHECK_DEADLOCK FALSE\n' % maxlen)
    dump = os.path.join(outdir(pid), 'paths.dump')
    res = run_tlc('MC_PathSafety', cfg, pid, workers=8, dump=dump, timeout=1800, tag='paths')
    if res['violation']:
        raise ToolError('PathSafety.tla violates its own invariants:\n' + res['stdout'][-3000:])
    cases, exps, metas = [], [], []
    classes = {}
    for st in tlaval.iter_dump(dump):
        if st['todo'] != (st['path'] if st['multi'] and st['path'] and st['path'][0] in ('', 'ROOT') else (st['name'] + st['path'] if st['multi'] else st['name'])):
            continue  # not an initial state
        if st['cur'] != ['run'] or st['left']:
            continue
        for one in ((False, True) if st['multi'] else (False,)):
            c, e = build_path_case(st['name'], st['path'], st['multi'], st['exp'], os.path.join(root, 'c%d' % len(cases)), rng.randrange(251), one)
            cases.append(c)
            exps.append(e)
            metas.append((st['name'], st['path'], st['multi'], st['exp'], one))
            classes[e['class']] = classes.get(e['class'], 0) + 1
    os.remove(dump)
    obs = run_mbt(cases)
    agree = 0
    for c, e, o, (name, path, multi, ex, one) in zip(cases, exps, obs, metas):
        bad = judge_paths(e, o)
        if bad:
            V.violation('%s; name=%r path=%r %s' % (bad, '/'.join(name), '/'.join(path), ('multi-file (one entry)' if one else 'multi-file') if multi else 'single-file'),
                        {'name': name, 'path': path, 'multi': multi, 'exp': ex, 'one_entry': one, 'observed': o}, None)
        else:
            agree += 1
    import shutil
    shutil.rmtree(root, ignore_errors=True)
    cov = {
        'states': res['distinct'], 'transitions': res['generated'], 'traces_validated_against_impl': agree,
        'samples': [{'name': '/'.join(n), 'path': '/'.join(p), 'multi': m, 'class': ex['class']} for n, p, m, ex, _ in metas[:: max(1, len(metas) // 6)]][:6],
        'exhaustive': True, 'evaluations': len(cases), 'classes': classes,
        'rule': 'every name/path component sequence over {.., ., empty, a, b, ROOT} up to the length bound x {single, multi} is an initial state of '
                'PathSafety.tla with its class (clean/degenerate/hostile) and, for clean ones, the location; the real Extractor runs in run/ inside a canary '
                'directory and the whole canary tree is listed afterwards: anything created outside the allowed area is a violation, clean cases must be at Loc',
    }
    return V.finish(cov, ['absolute paths are exercised only with a root inside the scratch canary tree, never the real /',
                          'symlinks are not part of the component alphabet'])


def build_path_case(name, path, multi, exp, scratch, pat, one_entry=False):
    rootpath = os.path.join(scratch, 'canary', 'abs_target')
    nm = comp_join(name, rootpath).encode()
    if multi and one_entry:
        # a multi-file torrent whose file list has a single entry is still a multi-file torrent
        data = content(5, pat)
        t = torrent_bytes(nm, 4, data, [(5, comp_join(path, rootpath).encode())])
        expfiles = [('/'.join(exp['loc']), 5, hashlib.sha1(data).hexdigest())]
    elif multi:
        l1, l2 = 5, 3
        data = content(l1 + l2, pat)
        files = [(l1, comp_join(path, rootpath).encode()), (l2, b'zz_ok')]
        t = torrent_bytes(nm, 4, data, files)
        expfiles = [('/'.join(exp['loc']), l1, hashlib.sha1(data[:l1]).hexdigest()),
                    ('/'.join(exp['area'] + ['zz_ok']), l2, hashlib.sha1(data[l1:]).hexdigest())]
    else:
        data = content(6, pat)
        t = torrent_bytes(nm, 4, data, None)
        expfiles = [('/'.join(exp['loc']), 6, hashlib.sha1(data).hexdigest())]
    c = {'op': 'extract', 'torrent': t.hex(), 'content_len': len(data), 'pat': pat, 'pl': 4, 'scratch': scratch}
    e = {'class': exp['class'], 'area': exp['area'], 'files': expfiles}
    return c, e
