#!/usr/bin/env python3
"""Binding demonstration for the trace validation (DESIGN.md section 3): an accepted full-stack trace must be
rejected by SwarmTrace.tla once (i) one recorded field is corrupted, (ii) one event is deleted, (iii) two events
of one connection are swapped, (iv) a manager state component is altered. Exit 0 iff all four are rejected and
the unmodified trace is accepted."""
import copy, json, random, sys
sys.path.insert(0, '/verif/lib')
import swarm_trace as sw, scenarios as G

rng = random.Random(11)
sc = G.honest(rng, gname='g4', npeers=2)
S = sw.Scenario(sc)
raw = sw.run_scenarios('SELF', [S])[0]
enc = sw.Encoder(S, raw).encode()


def accepted(trace):
    acc, probs = sw.validate('SELF', [S], [trace])
    return acc == 1, probs


ok, _ = accepted(enc)
print('unmodified trace (%d events): %s' % (len(enc), 'accepted' if ok else 'REJECTED'))
results = [ok]
# (i) corrupt one recorded field of a task event: the requested-block set after a step
t = copy.deepcopy(enc)
i = next(k for k, e in enumerate(t) if e['e'] == 'End' and e['hs']['req'])
t[i]['hs']['req'] = t[i]['hs']['req'][:-1]
r, p = accepted(t)
print('(i) one outstanding request removed from a logged task state at event %d: %s' % (i, 'rejected' if not r else 'ACCEPTED'))
results.append(not r)
# (ii) delete one manager event
t = copy.deepcopy(enc)
i = next(k for k, e in enumerate(t) if e['e'] == 'Mgr' and e['cmd'] == 'Unchoke')
del t[i]
r, p = accepted(t)
print('(ii) manager event Unchoke (event %d) deleted: %s' % (i, 'rejected' if not r else 'ACCEPTED'))
results.append(not r)
# (iii) swap two consecutive events of one connection task
t = copy.deepcopy(enc)
idx = [k for k, e in enumerate(t) if e['e'] in ('Call', 'End') and e['k'] == 'p1']
a, b = idx[3], idx[4]
t[a], t[b] = t[b], t[a]
r, p = accepted(t)
print('(iii) events %d and %d of connection p1 swapped: %s' % (a, b, 'rejected' if not r else 'ACCEPTED'))
results.append(not r)
# (iv) alter the manager state: a reservation count
t = copy.deepcopy(enc)
i = next(k for k, e in enumerate(t) if e['e'] == 'Mgr' and any(x['k'] == 'R' for x in e['st']))
for x in t[i]['st']:
    if x['k'] == 'R':
        x['n'] += 1
        break
r, p = accepted(t)
print('(iv) reservation count in the logged manager state of event %d incremented: %s' % (i, 'rejected' if not r else 'ACCEPTED'))
results.append(not r)

# ---- level 2 (SwarmObs.tla): the property-level reading is bound to the recorded execution as well ------------
def obs(trace, tag):
    r = sw.validate_obs('SELF', S, trace, tag=tag)
    return r['violated'], r['matched'] == len(trace)


v, full = obs(enc, 'o0')
print('level 2, unmodified trace: %s' % ('clean' if not v and full else 'FLAGGED %s' % v))
results.append(not v and full)
# (v) an owned piece is missing again in a later logged manager state
t = copy.deepcopy(enc)
i = next(k for k, e in enumerate(t) if 'st' in e and any(x['k'] == 'H' for x in e['st']))
j = next(k for k in range(i + 1, len(t)) if 'st' in t[k])
pi = next(n for n, x in enumerate(t[i]['st']) if x['k'] == 'H')      # owned since event i
for e in t[j:]:
    if 'st' in e:
        e['st'][pi]['k'] = 'M'        # ... and stays Missing in every later logged state
v, _ = obs(t, 'o5')
print('(v) an owned piece turned Missing in the logged manager state of event %d: %s' % (j, 'flagged %s' % v if v else 'NOT FLAGGED'))
results.append('THaveStable' in v)
# (vi) a Have frame is removed from what a task wrote: the announcement is missing at rest
t = copy.deepcopy(enc)
i = next(k for k, e in enumerate(t) if e['e'] in ('Call', 'End') and any(f['t'] == 'Have' for f in e['sent']))
t[i]['sent'] = [f for f in t[i]['sent'] if f['t'] != 'Have']
v, _ = obs(t, 'o6')
print('(vi) the Have frame written at event %d removed: %s' % (i, 'flagged %s' % v if v else 'NOT FLAGGED'))
results.append(bool({'ObsAnnAtRest', 'ObsAnnPrefix'} & set(v)))
# (vii) a Request frame is duplicated in what a task wrote: a block asked for twice
t = copy.deepcopy(enc)
i = next(k for k, e in enumerate(t) if e['e'] in ('Call', 'End') and any(f['t'] == 'Request' for f in e['sent']))
rq = next(f for f in t[i]['sent'] if f['t'] == 'Request')
t[i]['sent'].append(dict(rq))
v, _ = obs(t, 'o7')
print('(vii) a Request frame written at event %d duplicated: %s' % (i, 'flagged %s' % v if v else 'NOT FLAGGED'))
results.append('ObsTile' in v)
sys.exit(0 if all(results) else 1)
