#!/usr/bin/env python3
"""Binding demonstration for the trace validation (DESIGN.md section 3): an accepted full-stack trace must be
rejected by SwarmTrace.tla once (i) one recorded field is corrupted, (ii) one event is deleted, (iii) two events
of one connection are swapped, (iv) a manager state component is altered. Exit 0 iff all four are rejected and
the unmodified trace is accepted."""
import copy, json, random, sys
sys.path.insert(0, '/verif/lib')
import swarm_trace as sw, scenarios as G

rng = random.Random(11)
sc = G.honest(rng, gname='g4', npeers=2)
S = sw.Scenario(sc)
raw = sw.run_scenarios('SELF', [S])[0]
enc = sw.Encoder(S, raw).encode()


def accepted(trace):
    acc, probs = sw.validate('SELF', [S], [trace])
    return acc == 1, probs


ok, _ = accepted(enc)
print('unmodified trace (%d events): %s' % (len(enc), 'accepted' if ok else 'REJECTED'))
results = [ok]
# (i) corrupt one recorded field of a task event: the requested-block set after a step
t = copy.deepcopy(enc)
i = next(k for k, e in enumerate(t) if e['e'] == 'End' and e['hs']['req'])
t[i]['hs']['req'] = t[i]['hs']['req'][:-1]
r, p = accepted(t)
print('(i) one outstanding request removed from a logged task state at event %d: %s' % (i, 'rejected' if not r else 'ACCEPTED'))
results.append(not r)
# (ii) delete one manager event
t = copy.deepcopy(enc)
i = next(k for k, e in enumerate(t) if e['e'] == 'Mgr' and e['cmd'] == 'Unchoke')
del t[i]
r, p = accepted(t)
print('(ii) manager event Unchoke (event %d) deleted: %s' % (i, 'rejected' if not r else 'ACCEPTED'))
results.append(not r)
# (iii) swap two consecutive events of one connection task
t = copy.deepcopy(enc)
idx = [k for k, e in enumerate(t) if e['e'] in ('Call', 'End') and e['k'] == 'p1']
a, b = idx[3], idx[4]
t[a], t[b] = t[b], t[a]
r, p = accepted(t)
print('(iii) events %d and %d of connection p1 swapped: %s' % (a, b, 'rejected' if not r else 'ACCEPTED'))
results.append(not r)
# (iv) alter the manager state: a reservation count
t = copy.deepcopy(enc)
i = next(k for k, e in enumerate(t) if e['e'] == 'Mgr' and any(x['k'] == 'R' for x in e['st']))
for x in t[i]['st']:
    if x['k'] == 'R':
        x['n'] += 1
        break
r, p = accepted(t)
print('(iv) reservation count in the logged manager state of event %d incremented: %s' % (i, 'rejected' if not r else 'ACCEPTED'))
results.append(not r)
sys.exit(0 if all(results) else 1)
