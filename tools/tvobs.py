#!/usr/bin/env python3
"""debug helper: tools/tvobs.py <family> <n> [seed] -> run scenarios and read every execution with SwarmObs.tla only"""
import sys, json, re, random, collections
sys.path.insert(0, '/verif/lib')
import swarm_trace as sw, scenarios as G
from concurrent.futures import ThreadPoolExecutor
fam, n = sys.argv[1], int(sys.argv[2]); seed = int(sys.argv[3]) if len(sys.argv) > 3 else 1
rng = random.Random(seed)
scs = [getattr(G, fam)(rng) for _ in range(n)]
S = [sw.Scenario(s) for s in scs]
raw = sw.run_scenarios('SW', S)
enc = [sw.Encoder(s, r).encode() for s, r in zip(S, raw)]
def one(i):
    return i, sw.validate_obs('SW', S[i], enc[i], tag='o%d' % i)
cnt = collections.Counter()
with ThreadPoolExecutor(max_workers=8) as ex:
    for i, res in ex.map(one, range(len(S))):
        ok = not res['violated'] and res['matched'] == len(enc[i])
        cnt['ok' if ok else 'bad'] += 1
        if not ok:
            print('scenario', i, 'geo', scs[i]['geo'], 'violated', res['violated'], 'matched', res['matched'], 'of', len(enc[i]))
            if cnt['bad'] <= 3:
                out = res['out']
                for seg in out.split('Error: ')[1:4]:
                    head = seg.split('\n')[0]
                    ls = re.findall(r'/\\ l = (\d+)', seg)
                    if not ls:
                        continue
                    li = int(ls[-1]) - 1      # the violating state consumed event li-1 (0-based index li-1)
                    print('   ', head[:80], 'at l =', ls[-1])
                    for e in enc[i][max(0, li - 2): li]:
                        print('      ev', json.dumps({k: v for k, v in e.items() if k not in ('st', 'conn')})[:900])
                if not res['violated']:
                    print(out[-1500:])
print(dict(cnt))
