#!/usr/bin/env python3
"""Generates spec/MC_MetainfoDoc.tla and spec/MC_TrackerDoc.tla: the variant menus of the document
models written as TLA+ value literals (TLA+ has no string indexing, so byte strings are spelled out
as symbol sequences here)."""
import os
V = os.path.dirname(os.path.dirname(os.path.abspath(__file__)))


def sym(b):
    return chr(b) if 33 <= b < 127 and chr(b) not in '"\\x' else 'x%02x' % b


def syms(bs):
    if isinstance(bs, str):
        bs = bs.encode()
    return '<<' + ', '.join('"%s"' % sym(b) for b in bs) + '>>'


def I(n):
    return '[t |-> "i", neg |-> %s, d |-> %s]' % ('TRUE' if n < 0 else 'FALSE', syms(str(abs(n))))


def S(bs, lz=False):
    return '[t |-> "s", v |-> %s%s]' % (syms(bs), ', lz |-> TRUE' if lz else '')


def L(items):
    return '[t |-> "l", v |-> <<%s>>]' % ', '.join(items)


def D(pairs):
    return '[t |-> "d", v |-> %s]' % items(pairs)


def items(pairs):
    out = []
    for k, v in pairs:
        out += [S(k), v]
    return '<<' + ', '.join(out) + '>>'


def variant(top=(), info=(), tail=(), keep=None):
    s = '[top |-> %s, info |-> %s, tail |-> <<%s>>' % (items(top), items(info), ', '.join(tail))
    if keep is not None:
        s += ', keep |-> %s' % ('TRUE' if keep else 'FALSE')
    return s + ']'


I64MAX = 2 ** 63 - 1
H1 = bytes(range(65, 85))
H2 = bytes([0, 255, ord('e'), ord(':'), ord('i'), ord('d'), ord('4'), 128] + list(range(200, 212)))

METAINFO = {
    'pre': [variant(),
            variant(top=[('a', I(5))]),
            variant(top=[('comment', D([('info', I(1))]))]),
            variant(top=[('b', D([('x', D([('info', S('zz'))]))]))]),
            variant(top=[('aa', L([D([('info', I(2))])]))]),
            variant(top=[('c', S('info'))]),
            variant(top=[('k', S('4:info'))]),
            variant(top=[('a', I(5)), ('b', D([('info', L([]))]))])],
    'announce': [variant(top=[('announce', S('http://t/a'))]),
                 variant(),
                 variant(top=[('announce', I(5))]),
                 variant(top=[('announce', S('http://t/a', lz=True))])],
    'layout': [variant(info=[('length', I(5))]),
               variant(),
               variant(info=[('length', I(-1))]),
               variant(info=[('length', I(0))]),
               variant(info=[('length', I(5)), ('files', L([D([('length', I(2)), ('path', S('f1'))])]))]),
               variant(info=[('files', L([D([('length', I(2)), ('path', S('f1'))]), D([('length', I(3)), ('path', S('d/f2'))])]))]),
               variant(info=[('files', L([I(7), D([('length', I(1))]), D([('length', I(-1)), ('path', S('x'))]),
                                         D([('length', S('4')), ('path', S('y'))]), D([('length', I(4)), ('path', S('ok'))])]))]),
               variant(info=[('files', L([]))]),
               variant(info=[('files', I(3))]),
               variant(info=[('files', L([D([('length', I(I64MAX)), ('path', S('h%d' % i))]) for i in range(3)]))]),
               variant(info=[('length', I(I64MAX))]),
               variant(info=[('files', L([D([('length', I(0)), ('path', S('z'))]), D([('path', S('p2')), ('length', I(6)), ('md5sum', S('q'))])]))])],
    'name': [variant(info=[('name', S('nm'))]),
             variant(),
             variant(info=[('name', I(3))]),
             variant(info=[('name', S('nm', lz=True))])],
    'plen': [variant(info=[('piece length', I(3))]),
             variant(),
             variant(info=[('piece length', S('3'))]),
             variant(info=[('piece length', I(-1))]),
             variant(info=[('piece length', I(0))]),
             variant(info=[('piece length', I(1))]),
             variant(info=[('piece length', I(I64MAX))])],
    'pieces': [variant(info=[('pieces', S(H1))]),
               variant(),
               variant(info=[('pieces', I(20))]),
               variant(info=[('pieces', S(b''))]),
               variant(info=[('pieces', S(H1[:19]))]),
               variant(info=[('pieces', S(H1 + H2))]),
               variant(info=[('pieces', S(H2))])],
    'iextra': [variant(),
               variant(info=[('zz', D([('info', D([]))]))]),
               variant(info=[('private', I(1))]),
               variant(info=[('meta', D([('info', S('q')), ('name', S('other'))]))])],
    'info': [variant(keep=True),
             variant(keep=False),
             variant(top=[('info', I(7))], keep=False),
             variant(top=[('info', S('str'))], keep=False)],
    'post': [variant(),
             variant(top=[('zzz', I(0))]),
             variant(tail=[I(0)]),
             variant(tail=[D([('info', I(9))])]),
             variant(top=[('url-list', L([S('u1'), D([('info', S('w'))])]))])],
}
ORDER_A = ['pre', 'announce', 'layout', 'name', 'plen', 'pieces', 'iextra', 'info', 'post']
ORDER_B = ['post', 'info', 'iextra', 'pieces', 'plen', 'name', 'layout', 'announce', 'pre']
ORDER_C = ['iextra', 'pre', 'info', 'name', 'layout', 'pieces', 'plen', 'post', 'announce']

TRACKER = {
    'failure': [variant(),
                variant(top=[('failure reason', S('no such torrent'))]),
                variant(top=[('failure reason', I(1))])],
    'interval': [variant(top=[('interval', I(1800))]),
                 variant(),
                 variant(top=[('interval', I(-1))]),
                 variant(top=[('interval', S('x'))]),
                 variant(top=[('interval', I(0))])],
    'peers': [None],  # filled below
    'extra': [variant(),
              variant(top=[('complete', I(3)), ('min interval', I(60))]),
              variant(tail=[I(0)]),
              variant(top=[('warning message', D([('peers', L([]))]))])],
}
ID_A, ID_B, ID_C = b'-RD0001-aaaaaaaaaaaa', bytes(range(1, 21)), b'\xff' * 20


def peer(ip='10.0.0.1', pid=ID_A, port=6881, **kw):
    pairs = []
    if ip is not None:
        pairs.append(('ip', S(ip) if not isinstance(ip, int) else I(ip)))
    if pid is not None:
        pairs.append(('peer id', S(pid) if not isinstance(pid, int) else I(pid)))
    if port is not None:
        pairs.append(('port', I(port) if isinstance(port, int) else S(port)))
    return D(pairs)


TRACKER['peers'] = [
    variant(top=[('peers', L([peer(), peer('10.0.0.2', ID_B, 51413)]))]),
    variant(),
    variant(top=[('peers', I(5))]),
    variant(top=[('peers', S(b'\x0a\x00\x00\x01\x1a\xe1'))]),            # compact form: not supported, not a list
    variant(top=[('peers', L([]))]),
    variant(top=[('peers', L([peer('10.0.0.3', ID_C, 1), I(4), peer(ip=None), peer(pid=ID_A[:19]), peer(pid=ID_A + b'x'),
                              peer(port=-1), peer(port='80'), peer(ip=7), S('x'), peer('host.example', ID_B, 65535)]))]),
    variant(top=[('peers', L([peer('10.0.0.9', ID_B, 6881), peer('10.0.0.9', ID_B, 6881), peer('10.0.0.8', ID_A, 0)]))]),
    variant(top=[('peers', L([peer('10.0.0.%d' % i, ID_A, 7000 + i) for i in range(5, 0, -1)]))]),
]
T_ORDER_A = ['failure', 'interval', 'peers', 'extra']
T_ORDER_B = ['extra', 'peers', 'interval', 'failure']


def fun(menu):
    return '[ ' + ',\n    '.join('%s |-> <<\n      %s >>' % (g, ',\n      '.join(vs)) for g, vs in menu.items()) + ' ]'


def seq(names):
    return '<<' + ', '.join('"%s"' % n for n in names) + '>>'


with open(os.path.join(V, 'spec', 'MC_MetainfoDoc.tla'), 'w') as f:
    f.write('---- MODULE MC_MetainfoDoc ----\n(* GENERATED by tools/gen_doc_mc.py - variant menus of MetainfoDoc.tla as value literals *)\n'
            'EXTENDS MetainfoDoc, ByteSyms\n')
    f.write('MCVariants ==\n  %s\n' % fun(METAINFO))
    f.write('OrderA == %s\nOrderB == %s\nOrderC == %s\n' % (seq(ORDER_A), seq(ORDER_B), seq(ORDER_C)))
    for name, text in (('Announce', 'announce'), ('Info', 'info'), ('Name', 'name'), ('PieceLength', 'piece length'),
                       ('Pieces', 'pieces'), ('Length', 'length'), ('Files', 'files'), ('Path', 'path')):
        f.write('MCK%s == %s\n' % (name, syms(text)))
    f.write('====\n')

with open(os.path.join(V, 'spec', 'MC_TrackerDoc.tla'), 'w') as f:
    f.write('---- MODULE MC_TrackerDoc ----\n(* GENERATED by tools/gen_doc_mc.py - variant menus of TrackerDoc.tla as value literals *)\n'
            'EXTENDS TrackerDoc, ByteSyms\n')
    f.write('MCVariants ==\n  %s\n' % fun(TRACKER))
    f.write('OrderA == %s\nOrderB == %s\n' % (seq(T_ORDER_A), seq(T_ORDER_B)))
    for name, text in (('Failure', 'failure reason'), ('Interval', 'interval'), ('Peers', 'peers'), ('Ip', 'ip'),
                       ('PeerId', 'peer id'), ('Port', 'port')):
        f.write('MCK%s == %s\n' % (name, syms(text)))
    f.write('====\n')
print('generated')
