#!/usr/bin/env python3
"""Regenerates MANIFEST.json from the table below (one entry per claimed property)."""
import json, os, subprocess
V = os.path.dirname(os.path.dirname(os.path.abspath(__file__)))
props = [json.loads(l) for l in open(os.path.join(V, 'properties.jsonl'))]
MC = 'model_checking'
CLAIMS = {
 'C01': dict(
    technique='TLA+ specification of the session (Swarm.tla: manager, connection tasks, command/reply/broadcast channels, piece store) model-checked by TLC on a bounded instance; full-stack executions of the real Session/PeerHandler/Connection recorded through cfg(rdest_verif) hooks and validated event by event against the specification by TLC (SwarmTrace.tla); executions the specification does not explain are re-read by TLC at property level (SwarmObs.tla: logged states, property formulas and per-step formulas, no specification action) so that only a broken property, not a changed behaviour, is reported; wire/disk oracles on the same runs',
    text='Every interleaving of the bounded model satisfies owned/served/advertised => stored and that a corrupt assembly is never stored; adversarial and honest full-stack runs (corrupt, duplicated, odd, unrequested blocks, disconnects, several peers) are accepted by the spec with the spec store bound to the scanned directory after every step, and every piece file on disk must hash to its piece.',
    note='Trusted: TLC, the trace re-encoding in lib/swarm_trace.py (renaming/indexing only), in-memory duplex streams + current_thread runtime + paused clock instead of TCP/multi-thread runtime, SHA-1. Hook events are cross-checked against the bytes observed at the remote end. Design-level exploration is bounded (2-3 peers, 1-3 pieces, fuel-limited adversarial remotes).',
    ref='DESIGN.md 6/C01, 5.1'),
 'C02': dict(
    technique='TLA+ specification of the session (Swarm.tla: manager, connection tasks, command/reply/broadcast channels, piece store) model-checked by TLC on a bounded instance; full-stack executions of the real Session/PeerHandler/Connection recorded through cfg(rdest_verif) hooks and validated event by event against the specification by TLC (SwarmTrace.tla); executions the specification does not explain are re-read by TLC at property level (SwarmObs.tla: logged states, property formulas and per-step formulas, no specification action) so that only a broken property, not a changed behaviour, is reported; wire/disk oracles on the same runs',
    text='Honest swarms with random geometry, piece distribution, segmentation, incoming/outgoing peers and non-essential peers leaving must finish with byte-identical files and a live session in bounded virtual time; all traces validated. Liveness on the model is limited to the bounded safety exploration (see DESIGN.md limits).',
    note='Trusted: TLC, the trace re-encoding in lib/swarm_trace.py (renaming/indexing only), in-memory duplex streams + current_thread runtime + paused clock instead of TCP/multi-thread runtime, SHA-1. Hook events are cross-checked against the bytes observed at the remote end. Design-level exploration is bounded (2-3 peers, 1-3 pieces, fuel-limited adversarial remotes).',
    ref='DESIGN.md 6/C02'),
 'C03': dict(
    technique='TLA+ geometry and extractor model (Geometry.tla) checked by TLC for all small geometries; each geometry replayed into Metainfo::piece_length and the real Extractor',
    text='TLC enumerates every piece length 1..4 x every list of up to 4 file lengths (incl. 0, several files per piece) plus real-size geometries around 16 KiB/256 KiB, checks on the model that piece lengths partition the content, that the block tiling is exact and that an element-wise extractor model reproduces every file, and hands piece lengths/offsets to the replay, where the real extractor output is compared byte-exactly (length + SHA-1) on position-dependent content.',
    note='Trusted: TLC, SHA-1 (sha1_smol/hashlib), the content pattern generator shared by harness and driver.',
    ref='DESIGN.md 6/C03, 5.6'),
 'C04': dict(
    technique='TLA+ abstract file-system walk (PathSafety.tla) classifying every name/path component sequence, checked by TLC; every case replayed into the real Extractor inside a canary directory',
    text='TLC enumerates all name/path component sequences over {.., ., empty, a, b, absolute-root} up to a length bound for single- and multi-file layouts, proves on the model that clean paths never leave the allowed area at any step and end at Loc, and classifies hostile ones; the real extractor is run for each case in run/ inside a canary directory and the whole canary tree is listed afterwards: any entry outside the allowed area is a violation, clean cases must be at Loc with the right bytes.',
    note='Trusted: TLC, the recursive directory listing of the harness. Absolute paths only point into the scratch canary tree. No symlinks.',
    ref='DESIGN.md 6/C04, 5.6'),
 'C05': dict(
    technique='TLA+ document model (MetainfoDoc.tla over DocModel/BencodeValues) enumerated by TLC with the exact byte span of the top-level info value; replayed into Metainfo::from_bencode; spans of mutated torrents recomputed by TLC (BencodeTrace.tla)',
    text='TLC assembles documents from per-field variant menus in three entry orders (extra keys before/after info incl. nested dictionaries containing a key spelled info, leading-zero lengths, binary strings, trailing data), serialises them exactly and records the span of the top-level info value (invariant SpanInv); for every document rdest accepts, info_hash() must be the SHA-1 of that span. Mutated real-shaped torrents are parsed by rdest and their span recomputed byte by byte by TLC running the bencode automaton.',
    note='Trusted: TLC, SHA-1 (uninterpreted in TLA+; hashlib), the symbol/byte mapping. Documents with duplicate top-level keys are not generated.',
    ref='DESIGN.md 6/C05, 5.5'),
 'C06': dict(
    technique='TLA+ byte-level stream decoder model (FrameStream.tla over Wire.tla) checked by TLC; every reachable transition replayed into the real Connection under a paused clock; all splittings of short streams',
    text='TLC checks on the model that decoding is segmentation independent, leaves nothing decodable pending, is bounded and dies on malformed input, for every stream of menu items (valid messages, unknown ids, wrong length prefixes, oversize, bad handshakes, garbage) and every explored read boundary incl. EOF; each reachable state (stream x previous cut x cut) is then one transition test of the real Connection::recv_frame whose delivered messages, termination and buffered byte count must equal the spec state.',
    note='Trusted: TLC, Wire.tla transcription of BEP3 framing, in-memory duplex stream instead of TCP, quiescence = pending after 1 ms paused virtual time. Large frames are not in the TLC menu.',
    ref='DESIGN.md 6/C06, 5.2'),
 'C07': dict(
    technique='TLA+ byte layout (Wire.tla Encode/Parse) with boundary-value case generator (WireCases.tla) enumerated by TLC; cases replayed into Serializer::data / Frame::parse / Bitfield',
    text='TLC enumerates messages of all eleven kinds over boundary values of every u32 field, payload lengths around 16 KiB and the frame limit, hash/id byte classes, and all bit vectors up to 10 pieces (walking patterns up to 65), computes the BEP3 bytes, and checks the round trip on the model; the real serializer must emit exactly these bytes, the real parser must return the same message and consume exactly its length (also with trailing bytes).',
    note='Trusted: TLC, Wire.tla, payload expansion in the harness. Values between boundary classes are sampled.',
    ref='DESIGN.md 6/C07, 5.3'),
 'C08': dict(
    technique='TLA+ specification of the session (Swarm.tla: manager, connection tasks, command/reply/broadcast channels, piece store) model-checked by TLC on a bounded instance; full-stack executions of the real Session/PeerHandler/Connection recorded through cfg(rdest_verif) hooks and validated event by event against the specification by TLC (SwarmTrace.tla); executions the specification does not explain are re-read by TLC at property level (SwarmObs.tla: logged states, property formulas and per-step formulas, no specification action) so that only a broken property, not a changed behaviour, is reported; wire/disk oracles on the same runs',
    text='Model: nothing but our handshake/keep-alives before a valid remote handshake on incoming connections, no piece data without handshake on any connection. Implementation: every handshake kind at any point of a history on incoming and outgoing connections with a seeded store; wire-level silence and closing after an invalid handshake.',
    note='Trusted: TLC, the trace re-encoding in lib/swarm_trace.py (renaming/indexing only), in-memory duplex streams + current_thread runtime + paused clock instead of TCP/multi-thread runtime, SHA-1. Hook events are cross-checked against the bytes observed at the remote end. Design-level exploration is bounded (2-3 peers, 1-3 pieces, fuel-limited adversarial remotes).',
    ref='DESIGN.md 6/C08'),
 'C09': dict(
    technique='TLA+ specification of the session (Swarm.tla: manager, connection tasks, command/reply/broadcast channels, piece store) model-checked by TLC on a bounded instance; full-stack executions of the real Session/PeerHandler/Connection recorded through cfg(rdest_verif) hooks and validated event by event against the specification by TLC (SwarmTrace.tla); executions the specification does not explain are re-read by TLC at property level (SwarmObs.tla: logged states, property formulas and per-step formulas, no specification action) so that only a broken property, not a changed behaviour, is reported; wire/disk oracles on the same runs',
    text='Model: piece data only while unchoked (wire or manager view), loaded piece dropped on own Choke. Implementation: request menus incl. wrapping ranges, unknown and not-owned indices before/after a rotation chokes the requester; every Piece frame must answer an outstanding request with the stored bytes.',
    note='Trusted: TLC, the trace re-encoding in lib/swarm_trace.py (renaming/indexing only), in-memory duplex streams + current_thread runtime + paused clock instead of TCP/multi-thread runtime, SHA-1. Hook events are cross-checked against the bytes observed at the remote end. Design-level exploration is bounded (2-3 peers, 1-3 pieces, fuel-limited adversarial remotes).',
    ref='DESIGN.md 6/C09'),
 'C10': dict(
    technique='TLA+ specification of the session (Swarm.tla: manager, connection tasks, command/reply/broadcast channels, piece store) model-checked by TLC on a bounded instance; full-stack executions of the real Session/PeerHandler/Connection recorded through cfg(rdest_verif) hooks and validated event by event against the specification by TLC (SwarmTrace.tla); executions the specification does not explain are re-read by TLC at property level (SwarmObs.tla: logged states, property formulas and per-step formulas, no specification action) so that only a broken property, not a changed behaviour, is reported; wire/disk oracles on the same runs',
    text='Model: RxShape/RequestsTile on every step for 1-3 block pieces. Implementation: logged requested/left queues after every task step must be the ones the spec produces (blocks in order, once, next request after every accepted block, completion exactly at the last outstanding block); wire requests must be proper blocks.',
    note='Trusted: TLC, the trace re-encoding in lib/swarm_trace.py (renaming/indexing only), in-memory duplex streams + current_thread runtime + paused clock instead of TCP/multi-thread runtime, SHA-1. Hook events are cross-checked against the bytes observed at the remote end. Design-level exploration is bounded (2-3 peers, 1-3 pieces, fuel-limited adversarial remotes).',
    ref='DESIGN.md 6/C10'),
 'C11': dict(
    technique='TLA+ specification of the session (Swarm.tla: manager, connection tasks, command/reply/broadcast channels, piece store) model-checked by TLC on a bounded instance; full-stack executions of the real Session/PeerHandler/Connection recorded through cfg(rdest_verif) hooks and validated event by event against the specification by TLC (SwarmTrace.tla); executions the specification does not explain are re-read by TLC at property level (SwarmObs.tla: logged states, property formulas and per-step formulas, no specification action) so that only a broken property, not a changed behaviour, is reported; wire/disk oracles on the same runs',
    text='Model: ghost sequences due/ann prove in-order, loss-free announcement (AnnouncedInOrder) incl. deferral while choked; bitfield subset of store. Implementation: bitfield on the wire must equal the stored set at that moment, Have only after store, deferred Haves flushed at Unchoke in completion order.',
    note='Trusted: TLC, the trace re-encoding in lib/swarm_trace.py (renaming/indexing only), in-memory duplex streams + current_thread runtime + paused clock instead of TCP/multi-thread runtime, SHA-1. Hook events are cross-checked against the bytes observed at the remote end. Design-level exploration is bounded (2-3 peers, 1-3 pieces, fuel-limited adversarial remotes).',
    ref='DESIGN.md 6/C11'),
 'C12': dict(
    technique='TLA+ specification of the session (Swarm.tla: manager, connection tasks, command/reply/broadcast channels, piece store) model-checked by TLC on a bounded instance; full-stack executions of the real Session/PeerHandler/Connection recorded through cfg(rdest_verif) hooks and validated event by event against the specification by TLC (SwarmTrace.tla); executions the specification does not explain are re-read by TLC at property level (SwarmObs.tla: logged states, property formulas and per-step formulas, no specification action) so that only a broken property, not a changed behaviour, is reported; wire/disk oracles on the same runs',
    text='Model: HaveStable, ReservedBacked, AskOnlyAdvertisedAndLacked, NoPanic over all interleavings of adversarial peers. Implementation: the whole manager state after every command must equal the state the spec action produces; invariants evaluated in every observed state.',
    note='Trusted: TLC, the trace re-encoding in lib/swarm_trace.py (renaming/indexing only), in-memory duplex streams + current_thread runtime + paused clock instead of TCP/multi-thread runtime, SHA-1. Hook events are cross-checked against the bytes observed at the remote end. Design-level exploration is bounded (2-3 peers, 1-3 pieces, fuel-limited adversarial remotes).',
    ref='DESIGN.md 6/C12'),
 'C13': dict(
    technique='TLA+ specification of the session (Swarm.tla: manager, connection tasks, command/reply/broadcast channels, piece store) model-checked by TLC on a bounded instance; full-stack executions of the real Session/PeerHandler/Connection recorded through cfg(rdest_verif) hooks and validated event by event against the specification by TLC (SwarmTrace.tla); executions the specification does not explain are re-read by TLC at property level (SwarmObs.tla: logged states, property formulas and per-step formulas, no specification action) so that only a broken property, not a changed behaviour, is reported; wire/disk oracles on the same runs',
    text='PickSet transcribes the statement (candidates, rarest, end game, none iff no candidate; PickSound checks the clauses separately); every logged choice of the real choose_piece_index must be in PickSet of the logged pre-state, incl. 12-piece torrents on both sides of END_GAME_LIMIT.',
    note='Trusted: TLC, the trace re-encoding in lib/swarm_trace.py (renaming/indexing only), in-memory duplex streams + current_thread runtime + paused clock instead of TCP/multi-thread runtime, SHA-1. Hook events are cross-checked against the bytes observed at the remote end. Design-level exploration is bounded (2-3 peers, 1-3 pieces, fuel-limited adversarial remotes).',
    ref='DESIGN.md 6/C13'),
 'C14': dict(
    technique='TLA+ specification of the session (Swarm.tla: manager, connection tasks, command/reply/broadcast channels, piece store) model-checked by TLC on a bounded instance; full-stack executions of the real Session/PeerHandler/Connection recorded through cfg(rdest_verif) hooks and validated event by event against the specification by TLC (SwarmTrace.tla); executions the specification does not explain are re-read by TLC at property level (SwarmObs.tla: logged states, property formulas and per-step formulas, no specification action) so that only a broken property, not a changed behaviour, is reported; wire/disk oracles on the same runs',
    text='Model: SlotBound in every state, RotationPolicy on every executed rotation, ViewAgreement at quiescent states (TLC found the reply/broadcast race fixed in e10dd91). Implementation: up to 14 peers against the real limits with injected rate vectors, interest flips, rotations, and the timer/command race reproduced with tokio::time::advance.',
    note='Trusted: TLC, the trace re-encoding in lib/swarm_trace.py (renaming/indexing only), in-memory duplex streams + current_thread runtime + paused clock instead of TCP/multi-thread runtime, SHA-1. Hook events are cross-checked against the bytes observed at the remote end. Design-level exploration is bounded (2-3 peers, 1-3 pieces, fuel-limited adversarial remotes).',
    ref='DESIGN.md 6/C14'),
 'C15': dict(
    technique='TLA+ canonical encoder Enc (Bencode.tla) and value generator (BValueGen.tla) enumerated by TLC; cases replayed into BEncoder/BDecoder; recorded encoder runs validated by TLC (EncTrace.tla)',
    text='TLC enumerates all value trees up to a token bound over boundary leaves (i64 min/max, binary and delimiter-like strings, prefix keys) together with the canonical encoding computed by the TLA+ encoder; BEncoder must produce exactly these bytes and BDecoder must return the value; every canonical accepted document of the recogniser must re-encode to itself; random deep trees encoded by rdest are validated by TLC. Bounded-exhaustive model-based testing against the TLA+ reference.',
    note='Trusted: TLC, the TLA+ encoder (cross-checked against the recogniser by invariant ReEncodeInv), harness value encoding. Values between boundary leaves are sampled.',
    ref='DESIGN.md 6/C15, 5.4'),
 'C16': dict(
    technique='TLA+ reference automaton (Bencode.tla) enumerated by TLC; every reachable state replayed into BDecoder; recorded decoder verdicts validated by TLC (BencodeTrace.tla)',
    text='TLC enumerates every input over a delimiter-rich 10-symbol alphabet up to a length bound as the reachable states of an explicit pushdown recogniser; each state carries the verdict the property demands and is replayed through the real BDecoder (bounded-exhaustive model-based testing against the TLA+ reference). In the other direction decoder runs on mutated real-shaped documents are recorded and validated by TLC over the full byte alphabet.',
    note='Trusted: TLC, the TLA+ transcription of bencode well-formedness (checked against its own canonical encoder by the invariant ReEncodeInv), the harness JSON encoding of values. Integers outside i64 are not enumerated.',
    ref='DESIGN.md 6/C16, 5.4'),
 'C17': dict(
    technique='TLA+ document model (MetainfoDoc.tla) with the reading of the top-level dictionary computed by TLC; replayed into Metainfo::from_bencode and every accessor; create_file chunking expectations from Geometry.tla',
    text='TLC enumerates documents where up to 2 (thorough: 3) fields deviate from valid (absent / wrong type / negative / 0 / huge, bad file entries, both or neither of length/files, extra keys, three entry orders) and computes what the top-level dictionary says; an accepted document must yield exactly that reading and all accessors must return for every piece index; mutated and random bytes must not panic; create_file output must parse back to name, length and the SHA-1 of each 256 KiB chunk (chunk lengths from Geometry.tla).',
    note='Trusted: TLC, hashlib SHA-1, the hook accessor Metainfo::verif_fields. Whether unusual well-typed documents are accepted is not asserted.',
    ref='DESIGN.md 6/C17, 5.5'),
 'C18': dict(
    technique='TLA+ form-urlencoding and request model (Announce.tla) checked by TLC (Decode(Encode(h)) = h); every case replayed through the real TrackerClient::run + reqwest against a loopback HTTP listener',
    text='TLC enumerates hash vectors over byte classes (every class at first/middle/last position, all-same, alternating with %) x announce-URL shapes (with/without query, percent-encoded parameter, trailing ?) x total lengths and checks serialisation round trip and URL safety on the model; the real tracker client sends each request over loopback TCP, the captured request line is percent-decoded by the harness and compared with the abstract request (path, own parameters kept, exactly one info_hash = the 20 bytes, peer_id, port, left). All 256 byte values are covered at three positions in the thorough tier.',
    note='Trusted: TLC, loopback TCP, the harness percent-decoder, hook Metainfo::verif_set_info_hash to choose the hash.',
    ref='DESIGN.md 6/C18, 5.7'),
 'C19': dict(
    technique='TLA+ reply document model (TrackerDoc.tla) enumerated by TLC and replayed into TrackerResp::from_bencode; TLA+ model of manager x tracker task x bounded channel x join (TrackerLoop.tla) checked for liveness under fairness; the real session run against a scripted tracker transport and validated against Swarm.tla',
    text='Reply parsing: every reply document of the variant menus with the reading computed by TLC (failure wins, listed well-formed peers in order, malformed entries skipped), plus mutated replies for totality. Fault tolerance: TrackerLoop.tla proves EventuallyContacted, PeersServed and NeverStuck for the repaired join placement (and reports the violation for the code as found); the real session is driven through runs of 0..200 failures of every kind around the channel capacity while a connected peer keeps sending commands; listed peers must be contacted within |failures| s + 5 s of virtual time and the commands handled within 100 ms.',
    note='Trusted: TLC, the scripted transport at the reqwest boundary (hook H3), virtual time. Channel capacity scaled to 2-3 in the model.',
    ref='DESIGN.md 6/C19, 5.7'),
 'C20': dict(
    technique='TLA+ specification of the session (Swarm.tla: manager, connection tasks, command/reply/broadcast channels, piece store) model-checked by TLC on a bounded instance; full-stack executions of the real Session/PeerHandler/Connection recorded through cfg(rdest_verif) hooks and validated event by event against the specification by TLC (SwarmTrace.tla); executions the specification does not explain are re-read by TLC at property level (SwarmObs.tla: logged states, property formulas and per-step formulas, no specification action) so that only a broken property, not a changed behaviour, is reported; wire/disk oracles on the same runs',
    text='Model: keep-alive counter, timeout exit and release. Implementation in virtual time: silence patterns around the 120 s boundaries; emission instants of keep-alives, time of the timeout close (2-3 intervals after the last non-keep-alive message), never for live connections, peer forgotten afterwards.',
    note='Trusted: TLC, the trace re-encoding in lib/swarm_trace.py (renaming/indexing only), in-memory duplex streams + current_thread runtime + paused clock instead of TCP/multi-thread runtime, SHA-1. Hook events are cross-checked against the bytes observed at the remote end. Design-level exploration is bounded (2-3 peers, 1-3 pieces, fuel-limited adversarial remotes).',
    ref='DESIGN.md 6/C20'),
}
hooks = subprocess.check_output(['git', '-C', '/repo', 'log', '--format=%h %s', 'e8e0820..HEAD'], text=True).strip().split('\n')
hook_commits = [l.split()[0] for l in hooks if ' verif hooks:' in ' ' + l]
checks = []
for p in props:
    c = CLAIMS.get(p['id'])
    if not c:
        continue
    checks.append({
        'property_id': p['id'],
        'quick_cmd': './check %s --tier quick' % p['id'],
        'thorough_cmd': './check %s --tier thorough' % p['id'],
        'evidence_file': 'evidence/%s.json' % p['id'],
        'replay_cmd_template': './check %s --replay {path}' % p['id'],
        'engine': 'tlc+harness',
        'level_claimed': {'category': c.get('level', MC), 'text': c['text'], 'design_ref': c['ref']},
        'level_note': c['note'],
        'technique': c['technique'],
    })
m = {
 'version': 1,
 'setup_cmd': 'cd harness && CARGO_NET_OFFLINE=true cargo build --offline --quiet && cd .. && ./tools/sany_all.sh',
 'hooks': {'guard': 'rdest_verif',
           'enable': 'harness/.cargo/config.toml passes --cfg rdest_verif (and --check-cfg) to every crate of the harness build, which has a path dependency on /repo',
           'baseline_off_cmd': 'cd /repo && cargo test --workspace --no-fail-fast --offline --tests',
           'source_commits': hook_commits, 'add_only': True},
 'engines': [{'name': 'tlc+harness', 'path': 'check', 'serves_properties': [c['property_id'] for c in checks],
              'kind_free_text': 'TLA+ specifications under spec/ checked with TLC; generated cases/behaviours replayed into rdest by harness/ (Rust); traces recorded from rdest validated by TLC trace specifications'}],
 'checks': checks,
 'not_applicable': [{'property_id': p['id'], 'reason': 'check not built yet (work in progress; see DESIGN.md section 10)'} for p in props if p['id'] not in CLAIMS],
 'notes': 'known findings: known_findings.json; seeded breaking changes: seeded/; see DESIGN.md',
}
json.dump(m, open(os.path.join(V, 'MANIFEST.json'), 'w'), indent=1)
print('claimed:', [c['property_id'] for c in checks])
