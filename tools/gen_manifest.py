#!/usr/bin/env python3
"""Regenerates MANIFEST.json from the table below (one entry per claimed property)."""
import json, os, subprocess
V = os.path.dirname(os.path.dirname(os.path.abspath(__file__)))
props = [json.loads(l) for l in open(os.path.join(V, 'properties.jsonl'))]
MC = 'model_checking'
CLAIMS = {
 'C03': dict(
    technique='TLA+ geometry and extractor model (Geometry.tla) checked by TLC for all small geometries; each geometry replayed into Metainfo::piece_length and the real Extractor',
    text='TLC enumerates every piece length 1..4 x every list of up to 4 file lengths (incl. 0, several files per piece) plus real-size geometries around 16 KiB/256 KiB, checks on the model that piece lengths partition the content, that the block tiling is exact and that an element-wise extractor model reproduces every file, and hands piece lengths/offsets to the replay, where the real extractor output is compared byte-exactly (length + SHA-1) on position-dependent content.',
    note='Trusted: TLC, SHA-1 (sha1_smol/hashlib), the content pattern generator shared by harness and driver.',
    ref='DESIGN.md 6/C03, 5.6'),
 'C04': dict(
    technique='TLA+ abstract file-system walk (PathSafety.tla) classifying every name/path component sequence, checked by TLC; every case replayed into the real Extractor inside a canary directory',
    text='TLC enumerates all name/path component sequences over {.., ., empty, a, b, absolute-root} up to a length bound for single- and multi-file layouts, proves on the model that clean paths never leave the allowed area at any step and end at Loc, and classifies hostile ones; the real extractor is run for each case in run/ inside a canary directory and the whole canary tree is listed afterwards: any entry outside the allowed area is a violation, clean cases must be at Loc with the right bytes.',
    note='Trusted: TLC, the recursive directory listing of the harness. Absolute paths only point into the scratch canary tree. No symlinks.',
    ref='DESIGN.md 6/C04, 5.6'),
 'C06': dict(
    technique='TLA+ byte-level stream decoder model (FrameStream.tla over Wire.tla) checked by TLC; every reachable transition replayed into the real Connection under a paused clock; all splittings of short streams',
    text='TLC checks on the model that decoding is segmentation independent, leaves nothing decodable pending, is bounded and dies on malformed input, for every stream of menu items (valid messages, unknown ids, wrong length prefixes, oversize, bad handshakes, garbage) and every explored read boundary incl. EOF; each reachable state (stream x previous cut x cut) is then one transition test of the real Connection::recv_frame whose delivered messages, termination and buffered byte count must equal the spec state.',
    note='Trusted: TLC, Wire.tla transcription of BEP3 framing, in-memory duplex stream instead of TCP, quiescence = pending after 1 ms paused virtual time. Large frames are not in the TLC menu.',
    ref='DESIGN.md 6/C06, 5.2'),
 'C07': dict(
    technique='TLA+ byte layout (Wire.tla Encode/Parse) with boundary-value case generator (WireCases.tla) enumerated by TLC; cases replayed into Serializer::data / Frame::parse / Bitfield',
    text='TLC enumerates messages of all eleven kinds over boundary values of every u32 field, payload lengths around 16 KiB and the frame limit, hash/id byte classes, and all bit vectors up to 10 pieces (walking patterns up to 65), computes the BEP3 bytes, and checks the round trip on the model; the real serializer must emit exactly these bytes, the real parser must return the same message and consume exactly its length (also with trailing bytes).',
    note='Trusted: TLC, Wire.tla, payload expansion in the harness. Values between boundary classes are sampled.',
    ref='DESIGN.md 6/C07, 5.3'),
 'C15': dict(
    technique='TLA+ canonical encoder Enc (Bencode.tla) and value generator (BValueGen.tla) enumerated by TLC; cases replayed into BEncoder/BDecoder; recorded encoder runs validated by TLC (EncTrace.tla)',
    text='TLC enumerates all value trees up to a token bound over boundary leaves (i64 min/max, binary and delimiter-like strings, prefix keys) together with the canonical encoding computed by the TLA+ encoder; BEncoder must produce exactly these bytes and BDecoder must return the value; every canonical accepted document of the recogniser must re-encode to itself; random deep trees encoded by rdest are validated by TLC. Bounded-exhaustive model-based testing against the TLA+ reference.',
    note='Trusted: TLC, the TLA+ encoder (cross-checked against the recogniser by invariant ReEncodeInv), harness value encoding. Values between boundary leaves are sampled.',
    ref='DESIGN.md 6/C15, 5.4'),
 'C16': dict(
    technique='TLA+ reference automaton (Bencode.tla) enumerated by TLC; every reachable state replayed into BDecoder; recorded decoder verdicts validated by TLC (BencodeTrace.tla)',
    text='TLC enumerates every input over a delimiter-rich 10-symbol alphabet up to a length bound as the reachable states of an explicit pushdown recogniser; each state carries the verdict the property demands and is replayed through the real BDecoder (bounded-exhaustive model-based testing against the TLA+ reference). In the other direction decoder runs on mutated real-shaped documents are recorded and validated by TLC over the full byte alphabet.',
    note='Trusted: TLC, the TLA+ transcription of bencode well-formedness (checked against its own canonical encoder by the invariant ReEncodeInv), the harness JSON encoding of values. Integers outside i64 are not enumerated.',
    ref='DESIGN.md 6/C16, 5.4'),
}
hooks = subprocess.check_output(['git', '-C', '/repo', 'log', '--format=%h %s', 'e8e0820..HEAD'], text=True).strip().split('\n')
hook_commits = [l.split()[0] for l in hooks if ' verif hooks:' in ' ' + l]
checks = []
for p in props:
    c = CLAIMS.get(p['id'])
    if not c:
        continue
    checks.append({
        'property_id': p['id'],
        'quick_cmd': './check %s --tier quick' % p['id'],
        'thorough_cmd': './check %s --tier thorough' % p['id'],
        'evidence_file': 'evidence/%s.json' % p['id'],
        'replay_cmd_template': './check %s --replay {path}' % p['id'],
        'engine': 'tlc+harness',
        'level_claimed': {'category': c.get('level', MC), 'text': c['text'], 'design_ref': c['ref']},
        'level_note': c['note'],
        'technique': c['technique'],
    })
m = {
 'version': 1,
 'setup_cmd': 'cd harness && CARGO_NET_OFFLINE=true cargo build --offline --quiet && cd .. && ./tools/sany_all.sh',
 'hooks': {'guard': 'rdest_verif',
           'enable': 'harness/.cargo/config.toml passes --cfg rdest_verif (and --check-cfg) to every crate of the harness build, which has a path dependency on /repo',
           'baseline_off_cmd': 'cd /repo && cargo test --workspace --no-fail-fast --offline --tests',
           'source_commits': hook_commits, 'add_only': True},
 'engines': [{'name': 'tlc+harness', 'path': 'check', 'serves_properties': [c['property_id'] for c in checks],
              'kind_free_text': 'TLA+ specifications under spec/ checked with TLC; generated cases/behaviours replayed into rdest by harness/ (Rust); traces recorded from rdest validated by TLC trace specifications'}],
 'checks': checks,
 'not_applicable': [{'property_id': p['id'], 'reason': 'check not built yet (work in progress; see DESIGN.md section 10)'} for p in props if p['id'] not in CLAIMS],
 'notes': 'known findings: known_findings.json; seeded breaking changes: seeded/; see DESIGN.md',
}
json.dump(m, open(os.path.join(V, 'MANIFEST.json'), 'w'), indent=1)
print('claimed:', [c['property_id'] for c in checks])
