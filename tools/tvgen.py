#!/usr/bin/env python3
"""debug helper: tools/tvgen.py <family> <n> [seed] -> generate scenarios, run, validate, summarize problems"""
import sys, json, re, random, collections
sys.path.insert(0, '/verif/lib')
import swarm_trace as sw, scenarios as G
fam, n = sys.argv[1], int(sys.argv[2]); seed = int(sys.argv[3]) if len(sys.argv) > 3 else 1
rng = random.Random(seed)
scs = [getattr(G, fam)(rng) for _ in range(n)]
S = [sw.Scenario(s) for s in scs]
raw = sw.run_scenarios('SW', S)
enc = [sw.Encoder(s, r).encode() for s, r in zip(S, raw)]
acc, probs = sw.validate('SW', S, enc, max_reports=int(sys.argv[4]) if len(sys.argv) > 4 else 6)
print('scenarios', len(S), 'events', sum(len(e) for e in enc), 'accepted', acc, 'problems', len(probs))
for p in probs:
    i = p['scenario']
    print('PROBLEM', p['kind'], p['inv'], 'scenario', i, 'event', p['event_index'], 'geo', scs[i]['geo'])
    ev = p['event']
    print('  ', json.dumps(ev)[:700])
    li = ev['line'] if ev else 0
    for e in raw[i][max(0, li - 5): li + 2]:
        print('   raw', json.dumps(e)[:330])
    json.dump(scs[i], open('/verif/out/sim/prob_%d.json' % i, 'w'))
pan = [(i, e) for i, r in enumerate(raw) for e in r if e['ev'] == 'Panic']
print('panics', len(pan), pan[:3])
