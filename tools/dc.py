#!/usr/bin/env python3
"""measure a design configuration: tools/dc.py 'Unchoke,Choke,Piece' 'Fuel=3,Peers={a,b}'"""
import sys, time
sys.path.insert(0, '/verif/lib')
import swarm_checks as sc
kinds = sys.argv[1].split(',')
over = dict(kv.split('=', 1) for kv in sys.argv[2].split(';')) if len(sys.argv) > 2 and sys.argv[2] else {}
t = time.time()
res, viol = sc.design_check('DC' + (sys.argv[3] if len(sys.argv) > 3 else ''), 'thorough', kinds, over, timeout=int(sys.argv[4]) if len(sys.argv) > 4 else 600)
print(sys.argv[1:3], 'distinct', res.get('distinct'), 'generated', res.get('generated'), 'depth', res.get('depth'), 'wall %.0fs' % (time.time() - t), 'viol', viol)
