#!/bin/bash
# False-alarm probe: applies every kept property-preserving change (neutral/<id>/patch.diff, produced by an
# independent sub-agent that saw only the property texts) to /repo, runs the closest checks, undoes it.
# Every line must read rc=0 violations=0.
cd /verif
run() { n=$1; shift; for p in "$@"; do ./tools/run_seed.sh /verif/neutral/$n/patch.diff $p ${TIER:-quick} | head -1; done; }
run N01 C12 C13 C02
run N02 C10 C09 C01
run N03 C01 C06 C08 C09 C20 C19 C16 C02 C12 C10 C11 C14 C04 C17
run N04 C06 C07 C02
run N05 C11 C14 C02
run N06 C18 C19
run N07 C19 C14 C02 C12
run N08 C13 C12 C02
run N09 C19 C08 C02
run N10 C09 C01 C03 C04
run N11 C05 C17 C19
run N12 C15 C16 C05 C17
# behavioural changes that use freedom the property texts leave (second probe, P01-P10)
run P01 C10 C02
run P02 C10 C01
run P03 C12 C13
run P04 C12 C02 C20 C14
run P05 C14 C09
run P06 C14
run P07 C14 C09
run P08 C14 C20
run P09 C19
run P10 C19 C02
run R1 C02 C12
# second behavioural probe (S01-S10): all code areas
run S01 C06 C07
run S02 C08 C11 C02
run S03 C03 C04
run S04 C18 C19
run S05 C15 C16 C05
run S06 C05 C17 C19
run S07 C14 C09
run S08 C13 C12
run S09 C20 C12
run S10 C19 C02 C08
