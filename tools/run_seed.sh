#!/bin/bash
# run_seed.sh <patch> <property> [tier]: apply a seeded change to /repo, run the check, undo. Prints verdict.
p=$1; prop=$2; tier=${3:-quick}
cd /repo || exit 2
git diff --quiet || { echo "repo dirty"; exit 2; }
git apply "$p" || { echo "$(basename $(dirname $p)) $prop: patch does not apply"; exit 2; }
out=$(cd /verif && ./check $prop --tier $tier 2>&1); rc=$?
git checkout -q -- . ; git clean -qfd src tests
v=$(echo "$out" | grep -c '^VIOLATION')
first=$(echo "$out" | grep -A1 '^VIOLATION' | grep -- '->' | head -1 | cut -c1-220)
echo "$(basename $(dirname $p)) $prop [$tier]: rc=$rc violations=$v $first"
[ $rc -eq 2 ] && echo "$out" | tail -5
