#!/bin/bash
# runs the thorough tier of the given checks one after the other and prints time and verdict
cd "$(dirname "$0")/.."
for p in "$@"; do
  /usr/bin/time -f "$p thorough %es rc=%x" ./check $p --tier thorough 2>&1 | grep -E "thorough |VIOLATION|TOOL-ERROR|VACUOUS|KNOWN|\] ok" | cut -c1-260
done
