#!/usr/bin/env python3
"""debug helper: tools/tv.py scenario.json  -> run simnet + trace validation, print the first problem"""
import sys, json, re
sys.path.insert(0, '/verif/lib')
import swarm_trace as sw
S = [sw.Scenario(json.load(open(p))) for p in sys.argv[1:]]
raw = sw.run_scenarios('SW', S)
enc = [sw.Encoder(s, r).encode() for s, r in zip(S, raw)]
acc, probs = sw.validate('SW', S, enc)
print('scenarios', len(S), 'events', [len(e) for e in enc], 'accepted', acc)
for p in probs:
    print('PROBLEM', p['kind'], p['inv'], 'scenario', p['scenario'], 'event', p['event_index'])
    print(json.dumps(p['event'])[:900])
    tail = p['tlc_tail']
    m = re.search(r'(Error:.*?)(State \d+:|$)', tail, re.S)
    print(tail[-600:] if not m else m.group(1)[:600])
    # show raw neighbours
    i = p['scenario']; li = p['event']['line'] if p['event'] else 0
    for e in raw[i][max(0, li - 3): li + 2]:
        print('   raw', json.dumps(e)[:300])
