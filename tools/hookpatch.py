"""One-off helper used to insert the add-only verification hooks into /repo (kept for reference)."""
import re
def patch(path, edits):
    s=open(path).read()
    for (anchor, ins, where, nth) in edits:
        idxs=[m.start() for m in re.finditer(re.escape(anchor), s)]
        if nth<0:
            assert len(idxs)==1,(path,anchor,len(idxs)); i=idxs[0]
        else:
            assert len(idxs)>nth, (path, anchor, len(idxs)); i=idxs[nth]
        ls=s.rfind('\n',0,i)+1
        le=s.find('\n',i)+1
        indent=re.match(r'[ \t]*', s[ls:]).group(0)
        block=''.join((indent+l if l else '')+'\n' for l in ins.split('\n'))
        if where=='before': s=s[:ls]+block+s[ls:]
        else: s=s[:le]+block+s[le:]
    open(path,'w').write(s)
def append(path, text):
    s=open(path).read().rstrip('\n')+'\n'+text
    open(path,'w').write(s)
