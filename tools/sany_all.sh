#!/bin/sh
# parse every specification (fails on the first syntax/semantic error)
cd "$(dirname "$0")/../spec" || exit 2
for f in *.tla; do
  case "$f" in *_TTrace_*) continue;; esac
  out=$(tla-sany "$f" 2>&1) || { echo "$out"; echo "SANY failed on $f"; exit 1; }
  echo "$out" | grep -q "Fatal errors\|\*\*\* Errors" && { echo "$out"; echo "SANY errors in $f"; exit 1; }
done
echo "sany ok"
