#!/usr/bin/env python3
"""Shows that the invariants of Swarm.tla are not vacuous: with one as-found behaviour switched back on
(constant Bugs) TLC must report the violation that defect causes. Exit 0 iff every defect is reported."""
import re, sys, time
sys.path.insert(0, '/verif/lib')
import swarm_checks as sc
CASES = [
    # bug, frame kinds, constant overrides, what must be violated
    ('dupUnchoke', ['Unchoke', 'Bitfield'], dict(Fuel=3, BFMenu='{{1, 2}}'), ['ReservedBacked', 'NoPanic', 'AssignmentAgrees']),
    ('reserveChoked', ['Unchoke', 'Choke', 'Bitfield', 'Piece'], dict(Fuel=4, Peers='{a}', BFMenu='{{1, 2}}'), ['ReservedBacked']),
    ('keepRxOnNone', ['Unchoke', 'Choke', 'Bitfield', 'Piece'], dict(Fuel=6, Peers='{a}', NPieces=1, NBlocks='N1', BFMenu='{{1}, {}}'), ['NoPanic', 'ReservedBacked', 'RxOnlyAdvertised']),
    ('optCount', ['Bitfield'], dict(Fuel=1, Peers='{a, b}', NPieces=1, NBlocks='N1', MaxUnchoked=1, BFMenu='{{1}}'), ['SlotBound']),
    ('replyUnchoke', ['Bitfield'], dict(Fuel=2, Peers='{a}', NPieces=1, NBlocks='N1', TickFuel=1, MaxUnchoked=1, BFMenu='{{1}}', Rates='{0}'), ['ViewAgreement']),
    ('cacheAfterChoke', ['Bitfield', 'Request'], dict(Fuel=4, Peers='{a}', NPieces=2, NBlocks='N1x2', Own0='{1}', TickFuel=1, BFMenu='{{2}}', Rates='{0}'), ['C09Step', 'NoCacheWhileChoked']),
    ('dupAccept', ['Unchoke', 'Bitfield', 'Piece'], dict(Fuel=3, Peers='{a}', NPieces=1, NBlocks='N1', ConnFuel=2, BFMenu='{{1}}'), ['ReservedBacked', 'NoPanic']),
    ('preHandshake', ['Bitfield', 'Handshake'], dict(Fuel=2, Peers='{a}', HS0='FALSE', BFMenu='{{1, 2}}'), ['C08Step']),
]
ok = True
for bug, kinds, over, want in CASES:
    over = dict(over, Bugs='{"%s"}' % bug)
    t = time.time()
    res, viol = sc.design_check('SENS', 'quick', kinds, over, timeout=600)
    m = re.search(r'(?:Invariant|property|Action property) (\w+) (?:is|was) violated', res['stdout'])
    got = m.group(1) if m else None
    good = got in want
    ok &= good
    print('%-16s -> %s (%s, %d states, %.0fs) %s' % (bug, got, 'expected one of ' + '/'.join(want), res.get('distinct', 0), time.time() - t, 'ok' if good else 'NOT REPORTED'))
# and the repaired design passes the same configurations
for bug, kinds, over, want in CASES:
    res, viol = sc.design_check('SENS', 'quick', kinds, dict(over, Bugs='{}'), timeout=600)
    if viol:
        ok = False
        print('%-16s repaired design VIOLATES %s' % (bug, viol))
print('spec sensitivity:', 'all defects reported, repaired design clean' if ok else 'FAILED')
sys.exit(0 if ok else 1)
