#!/usr/bin/env python3
"""Shows that the invariants of Swarm.tla are not vacuous: with one as-found behaviour switched back on
(constant Bugs) TLC must report the violation that defect causes. Exit 0 iff every defect is reported."""
import re, sys, time
sys.path.insert(0, '/verif/lib')
import swarm_checks as sc
CASES = [
    # bug, frame kinds, constant overrides, what must be violated
    ('dupUnchoke', ['Unchoke', 'Bitfield'], dict(Fuel=3, BFMenu='{{1, 2}}'), ['ReservedBacked', 'NoPanic', 'AssignmentAgrees']),
    ('reserveChoked', ['Unchoke', 'Choke', 'Bitfield', 'Piece'], dict(Fuel=4, Peers='{a}', BFMenu='{{1, 2}}'), ['ReservedBacked']),
    ('keepRxOnNone', ['Unchoke', 'Choke', 'Bitfield', 'Piece'], dict(Fuel=6, Peers='{a}', NPieces=1, NBlocks='N1', BFMenu='{{1}, {}}'), ['NoPanic', 'ReservedBacked', 'RxOnlyAdvertised']),
    ('optCount', ['Bitfield'], dict(Fuel=1, Peers='{a, b}', NPieces=1, NBlocks='N1', MaxUnchoked=1, BFMenu='{{1}}'), ['SlotBound']),
    ('replyUnchoke', ['Bitfield'], dict(Fuel=2, Peers='{a}', NPieces=1, NBlocks='N1', TickFuel=1, MaxUnchoked=1, BFMenu='{{1}}', Rates='{0}'), ['ViewAgreement']),
    ('cacheAfterChoke', ['Bitfield', 'Request'], dict(Fuel=4, Peers='{a}', NPieces=2, NBlocks='N1x2', Own0='{1}', TickFuel=1, BFMenu='{{2}}', Rates='{0}'), ['C09Step', 'NoCacheWhileChoked']),
    ('dupAccept', ['Unchoke', 'Bitfield', 'Piece'], dict(Fuel=3, Peers='{a}', NPieces=1, NBlocks='N1', ConnFuel=2, BFMenu='{{1}}'), ['ReservedBacked', 'NoPanic', 'ViewAgreement']),
    ('preHandshake', ['Bitfield', 'Handshake'], dict(Fuel=2, Peers='{a}', HS0='FALSE', BFMenu='{{1, 2}}'), ['C08Step']),
]
ok = True
for bug, kinds, over, want in CASES:
    over = dict(over, Bugs='{"%s"}' % bug)
    t = time.time()
    res, viol = sc.design_check('SENS', 'quick', kinds, over, timeout=600)
    m = re.search(r'(?:Invariant|property|Action property) (\w+) (?:is|was) violated', res['stdout'])
    got = m.group(1) if m else None
    good = got in want
    ok &= good
    print('%-16s -> %s (%s, %d states, %.0fs) %s' % (bug, got, 'expected one of ' + '/'.join(want), res.get('distinct', 0), time.time() - t, 'ok' if good else 'NOT REPORTED'))
# and the repaired design passes the same configurations
for bug, kinds, over, want in CASES:
    res, viol = sc.design_check('SENS', 'quick', kinds, dict(over, Bugs='{}'), timeout=600)
    if viol:
        ok = False
        print('%-16s repaired design VIOLATES %s' % (bug, viol))
# liveness: with the release of a piece kept silent (as found) the honest swarm without end game never completes
import os
from common import run_tlc, outdir
cfg = os.path.join(outdir('SENS'), 'live_silent.cfg')
open(cfg, 'w').write('SPECIFICATION LSpec\nCONSTANTS\n  Peers = {"a", "b"}\n  NPieces = 2\n  NBlocks <- N1x2\n  EndGame = 1\n  MaxUnchoked = 1\n  OptRounds = 3\n'
                     '  KALimit = 2\n  Pipeline = {2}\n  Rates = {0}\n  FrameKinds = {}\n  BFMenu = {}\n  Own0 = {}\n  Bugs = {"silentRelease"}\n  HS0 = FALSE\n  Has <- HasQ\n  Leavers = {"b"}\n'
                     'INVARIANTS NoDeadEnd\nPROPERTIES EventuallyComplete\nCHECK_DEADLOCK FALSE\n')
r = run_tlc('MC_SwarmLive', cfg, 'SENS', workers=8, timeout=600, tag='livesilent', xmx='8g')
good = r['violation'] and 'EventuallyComplete' in r['stdout']
ok &= bool(good)
print('%-16s -> %s (liveness, %d states) %s' % ('silentRelease', 'EventuallyComplete violated' if good else 'nothing', r.get('distinct', 0), 'ok' if good else 'NOT REPORTED'))
txt = open(cfg).read().replace('{"silentRelease"}', '{}')
open(cfg, 'w').write(txt)
r = run_tlc('MC_SwarmLive', cfg, 'SENS', workers=8, timeout=600, tag='livesilent', xmx='8g')
if r['violation']:
    ok = False
    print('silentRelease    repaired design VIOLATES liveness')
print('spec sensitivity:', 'all defects reported, repaired design clean' if ok else 'FAILED')
sys.exit(0 if ok else 1)
