#!/bin/bash
# confirm_seed.sh <seed dir> : in a scratch worktree confirm that (1) the existing suite passes with
# patch.diff, (2) the demonstration passes without the patch, (3) fails with it. Prints one line.
set -u
d=$1; wt=${2:-/tmp/wt_confirm}
cd "$wt" || exit 2
git checkout -q -- . && git clean -qfd src tests
count() { grep -E "^test result" | awk '{p+=$4; f+=$6} END{print p" "f}'; }
git apply "$d/patch.diff" || { echo "$(basename $d): patch does not apply"; exit 1; }
r1=$(cargo test --offline --tests 2>&1 | count)
git checkout -q -- . && git clean -qfd src tests
git apply "$d/demo.diff" || { echo "$(basename $d): demo does not apply"; exit 1; }
r2=$(cargo test --offline --tests 2>&1 | count)
git apply "$d/patch.diff" || { echo "$(basename $d): patch+demo do not apply together"; }
r3=$(cargo test --offline --tests 2>&1 | count)
git checkout -q -- . && git clean -qfd src tests
echo "$(basename $d): suite-with-patch(pass fail)=[$r1] demo-clean=[$r2] demo-with-patch=[$r3]"
