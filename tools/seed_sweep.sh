#!/bin/bash
# runs every kept seeded change against the check of its property (quick tier) and prints one line each
cd /verif
for d in seeded/*/; do
  id=$(basename $d); prop=$(python3 -c "import json;print(json.load(open('$d/meta.json'))['property'])")
  ./tools/run_seed.sh /verif/${d}patch.diff $prop ${1:-quick} | head -1
done
