---- MODULE MC_Announce ----
EXTENDS Announce
\* a, *, -, ., _, space, &, %, +, =, #, ?, /, NUL, 0x7f, 0x80, 0xff, LF, ~, :
MCClasses == {97, 42, 45, 46, 95, 32, 38, 37, 43, 61, 35, 63, 47, 0, 127, 128, 255, 10, 126, 58}
MCClassesFew == {32, 38, 37, 43, 0, 128, 255, 35}
MCPositions == {1, 10, 20}
MCShapes == { [id |-> "plain", path |-> "/announce", query |-> "none"],
              [id |-> "deep", path |-> "/a/b/announce.php", query |-> "none"],
              [id |-> "one", path |-> "/announce", query |-> "passkey=abc123"],
              [id |-> "two", path |-> "/announce", query |-> "a=1&b=x%20y"],
              [id |-> "empty", path |-> "/announce", query |-> ""],
              \* a parameter value may itself contain ? / = (only the first ? of a URL starts the query)
              [id |-> "qmark", path |-> "/announce", query |-> "passkey=abc&ref=/list?page=2"],
              [id |-> "trail", path |-> "/announce", query |-> "k=v&"] }
MCTotals == {"0", "1", "4294967297"}
====
