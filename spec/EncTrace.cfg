SPECIFICATION TSpec
CONSTANTS
  Alphabet <- ByteSymbols
  Code <- ByteCode
  MaxLen = 0
POSTCONDITION Report
CHECK_DEADLOCK FALSE
