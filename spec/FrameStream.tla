--------------------------- MODULE FrameStream ---------------------------
(* C06: the receive side of one peer connection at byte level (Connection::recv_frame).      *)
(* The environment fixes a byte stream (a concatenation of menu items: valid messages,        *)
(* unknown ids, wrong length prefixes, oversized frames, bad handshakes, garbage) and         *)
(* delivers it in reads of arbitrary sizes, possibly ending with EOF.  After every read the   *)
(* decoder runs to quiescence.  `prev` remembers where the last read started so that every    *)
(* reachable state is one replayable transition for the real Connection.                      *)
EXTENDS Wire

CONSTANTS Menu,       \* item name -> bytes
          MaxItems,   \* streams are sequences of 1..MaxItems menu items
          CutOffsets  \* read boundaries explored inside an item, relative to its start

VARIABLES items,      \* names of the items making up the stream (fixed by Init)
          stream,     \* its bytes (fixed by Init)
          pos,        \* bytes received so far
          prev,       \* value of pos before the last read (history, for replay)
          buf,        \* received but not yet decoded bytes
          delivered,  \* messages handed to the connection task so far
          dead,       \* the decoder reported a fatal error: the connection must be terminated
          eof         \* the peer closed its end

vars == <<items, stream, pos, prev, buf, delivered, dead, eof>>

RECURSIVE Concat(_)
Concat(its) == IF its = <<>> THEN <<>> ELSE Menu[Head(its)] \o Concat(Tail(its))
Stream == stream

\* item boundaries and the interesting offsets inside each item
RECURSIVE Starts(_, _)
Starts(its, at) == IF its = <<>> THEN {} ELSE {at} \cup Starts(Tail(its), at + Len(Menu[Head(its)]))
CutPoints == LET n == Len(Stream)
                 st == Starts(items, 0)
             IN  {p \in 1..n : \/ p = n
                               \/ \E s \in st : p - s \in CutOffsets
                               \/ \E s \in st : s - p \in {0, 1}}

Streams == UNION {[1..n -> DOMAIN Menu] : n \in 1..MaxItems}

Init == /\ items \in Streams
        /\ stream = Concat(items)
        /\ pos = 0 /\ prev = 0
        /\ buf = <<>> /\ delivered = <<>>
        /\ dead = FALSE /\ eof = FALSE

\* the next bytes up to cut point p arrive in one read; the decoder then runs to quiescence
Read(p) == /\ ~dead /\ ~eof
           /\ p > pos
           /\ LET r == Drain(buf \o SubSeq(Stream, pos + 1, p), <<>>) IN
                /\ buf' = r.rest
                /\ delivered' = delivered \o r.msgs
                /\ dead' = r.dead
           /\ prev' = pos /\ pos' = p
           /\ UNCHANGED <<items, stream, eof>>

\* the peer closes: a clean close between messages ends the connection normally, a close inside
\* a message is an error; either way the connection task must terminate now
Eof == /\ ~dead /\ ~eof
       /\ eof' = TRUE /\ dead' = TRUE
       /\ prev' = pos
       /\ UNCHANGED <<items, stream, pos, buf, delivered>>

Next == (\E p \in CutPoints : Read(p)) \/ Eof
Spec == Init /\ [][Next]_vars

-----------------------------------------------------------------------------
(* Properties (C06 on the model) *)
OneShot == Drain(SubSeq(Stream, 1, pos), <<>>)

\* segmentation independence + "every complete message already received is delivered":
\* whatever the reads were, the state equals the one obtained from a single read of the prefix
SegIndep == /\ delivered = OneShot.msgs
            /\ (~eof => dead = OneShot.dead)
            /\ (~dead => buf = OneShot.rest)

\* nothing decodable is ever left waiting in the buffer
NothingPending == ~dead => Parse(buf).d = "need"

\* at most one frame (length prefix + MaxFrame) is buffered
Bounded == ~dead => Len(buf) < 4 + MaxFrame

\* once dead, always dead; nothing is delivered afterwards
DeadStays == [][dead => (dead' /\ delivered' = delivered)]_vars
=============================================================================
