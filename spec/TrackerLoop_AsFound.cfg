SPECIFICATION Spec
CONSTANTS
  ChanCap = 2
  MaxFail = 5
  JoinAfter = "every"
PROPERTIES EventuallyContacted PeersServed NeverStuck
