---- MODULE MC_WireCases ----
EXTENDS WireCases
MCU32s == { <<0,0,0,0>>, <<0,0,0,1>>, <<0,0,0,255>>, <<0,0,1,0>>, <<0,0,255,255>>, <<0,1,0,0>>,
            <<127,255,255,255>>, <<128,0,0,0>>, <<255,255,255,254>>, <<255,255,255,255>> }
MCU32sFew == { <<0,0,0,0>>, <<0,0,1,0>>, <<0,1,0,0>>, <<128,0,0,0>>, <<255,255,255,255>> }
MCPayLens == {0, 1, 2, 16383, 16384, 16385, 65527}
MCBitLens == {0, 1, 2, 512, 65535}
Base(p) == [i \in 1..20 |-> IF p = "zero" THEN 0 ELSE IF p = "ff" THEN 255 ELSE 10 * i]
MCHashes == {Base(p) : p \in {"zero", "ff", "asc"}}
            \cup {[Base("asc") EXCEPT ![pos] = v] : pos \in {1, 10, 20}, v \in {0, 19, 84, 127, 128, 255}}
MCHashesFew == {Base(p) : p \in {"zero", "asc"}} \cup {[Base("asc") EXCEPT ![pos] = 255] : pos \in {1, 20}}
MCBitCounts == 1..10 \cup {11, 15, 16, 17, 40, 63, 64, 65}
MCBitCountsFew == 1..8 \cup {9, 16, 17, 65}
====
