--------------------------- MODULE Bencode ---------------------------
(* Reference model of bencode (BEP3) used for C15, C16 and, through the info span,      *)
(* C05/C17/C19.                                                                          *)
(*                                                                                        *)
(* Part 1: a pushdown recogniser that consumes one input symbol per step and builds the  *)
(* decoded values.  Each reachable state is one input string together with the verdict    *)
(* the property demands for it (accept + values, or reject), so the state graph IS the    *)
(* test-suite that is replayed against rdest's BDecoder.                                  *)
(* Part 2: the canonical encoder Enc, used as the expected output of BEncoder and for     *)
(* the design-level round-trip invariants.                                                *)
(*                                                                                        *)
(* Symbols are one-character strings (plus "x00", "xff", ... for binary bytes); Code maps *)
(* a symbol to its byte value.  Integers are kept as sign + digit sequence, never as TLC  *)
(* integers, so the i64 range does not depend on TLC's 32-bit arithmetic.                 *)
EXTENDS BencodeValues

CONSTANTS Alphabet,   \* symbols the environment may feed
          MaxLen      \* bound on the input length

VARIABLES inp,    \* symbols consumed so far
          stack,  \* open containers, bottom is the top level: [k, items]
          mode,   \* "val" | "i0" | "ineg" | "izero" | "idig" | "slen" | "sbody" | "dead"
          acc,    \* [neg, d, n, v]: sign/digits of the number being read, bytes left, bytes read
          nc      \* TRUE once the input is known to be non-canonical (leading-zero length,
                  \* dictionary keys not strictly ascending)

vars == <<inp, stack, mode, acc, nc>>

Acc0 == [neg |-> FALSE, d |-> <<>>, n |-> 0, v |-> <<>>]

Top == stack[Len(stack)]

\* the top container is a dictionary waiting for a key
KeyTurn == Top.k = "d" /\ Len(Top.items) % 2 = 0

Init == /\ inp = <<>>
        /\ stack = << [k |-> "top", items |-> <<>>] >>
        /\ mode = "val"
        /\ acc = Acc0
        /\ nc = FALSE

Die == mode' = "dead" /\ UNCHANGED <<stack, acc>>

\* a value is complete: append it to the innermost open container
Push(v) == /\ stack' = [stack EXCEPT ![Len(stack)].items = Append(@, v)]
           /\ mode' = "val"
           /\ acc' = Acc0

\* decimal value of a digit sequence, capped so that TLC integers never overflow
RECURSIVE Dec(_)
Dec(d) == IF d = <<>> THEN 0
          ELSE LET r == Dec(Front(d)) IN
               IF r > 100000 THEN 1000001 ELSE r * 10 + DV[Last(d)]

StartBody(n) == IF n = 0 THEN Push(StrV(<<>>))
                ELSE /\ mode' = "sbody"
                     /\ acc' = [Acc0 EXCEPT !.n = n]
                     /\ UNCHANGED stack

Step(c) ==
  /\ inp' = Append(inp, c)
  /\ nc' = (nc \/ (mode = "slen" /\ c = ":" /\ Len(acc.d) > 1 /\ acc.d[1] = "0")
               \/ (mode = "val" /\ c = "e" /\ Len(stack) > 1 /\ Top.k = "d"
                                /\ ~KeysAscending(Top.items)))
  /\ CASE mode = "val" ->
            IF c \in Digits THEN
                 /\ mode' = "slen" /\ acc' = [Acc0 EXCEPT !.d = <<c>>] /\ UNCHANGED stack
            ELSE IF KeyTurn /\ c \in {"i", "l", "d"} THEN Die      \* keys must be strings
            ELSE IF c = "i" THEN mode' = "i0" /\ acc' = Acc0 /\ UNCHANGED stack
            ELSE IF c \in {"l", "d"} THEN
                 /\ stack' = Append(stack, [k |-> c, items |-> <<>>])
                 /\ UNCHANGED <<mode, acc>>
            ELSE IF c = "e" THEN
                 IF Len(stack) = 1 THEN Die
                 ELSE IF Top.k = "d" /\ Len(Top.items) % 2 = 1 THEN Die
                 ELSE /\ stack' = [Front(stack) EXCEPT
                                      ![Len(stack) - 1].items = Append(@, ConV(Top.k, Top.items))]
                      /\ UNCHANGED <<mode, acc>>
            ELSE Die
       [] mode = "i0" ->
            IF c = "-" THEN mode' = "ineg" /\ acc' = [Acc0 EXCEPT !.neg = TRUE] /\ UNCHANGED stack
            ELSE IF c = "0" THEN mode' = "izero" /\ acc' = [Acc0 EXCEPT !.d = <<"0">>] /\ UNCHANGED stack
            ELSE IF c \in Digits THEN mode' = "idig" /\ acc' = [Acc0 EXCEPT !.d = <<c>>] /\ UNCHANGED stack
            ELSE Die
       [] mode = "ineg" ->
            IF c \in Digits \ {"0"} THEN mode' = "idig" /\ acc' = [acc EXCEPT !.d = <<c>>] /\ UNCHANGED stack
            ELSE Die                                               \* "i-e", "i-0..." are malformed
       [] mode = "izero" ->
            IF c = "e" THEN Push(IntV(FALSE, <<"0">>)) ELSE Die     \* leading zero
       [] mode = "idig" ->
            IF c \in Digits THEN acc' = [acc EXCEPT !.d = Append(@, c)] /\ UNCHANGED <<stack, mode>>
            ELSE IF c = "e" THEN Push(IntV(acc.neg, acc.d))
            ELSE Die
       [] mode = "slen" ->
            IF c \in Digits THEN acc' = [acc EXCEPT !.d = Append(@, c)] /\ UNCHANGED <<stack, mode>>
            \* (a length of ten or more digits exceeds every input this automaton is run on: the body can never be
            \*  complete; capping it keeps TLC's 32-bit integers out of trouble for lengths such as 2^64 + 3)
            ELSE IF c = ":" THEN StartBody(IF Len(acc.d) > 9 THEN 1000000000 ELSE Dec(acc.d))
            ELSE Die
       [] mode = "sbody" ->
            IF acc.n = 1 THEN Push(StrV(Append(acc.v, c)))
            ELSE acc' = [acc EXCEPT !.n = @ - 1, !.v = Append(@, c)] /\ UNCHANGED <<stack, mode>>
       [] OTHER -> FALSE

Next == /\ mode # "dead"
        /\ Len(inp) < MaxLen
        /\ \E c \in Alphabet : Step(c)

Spec == Init /\ [][Next]_vars

-----------------------------------------------------------------------------
(* Verdict the property demands for the input consumed so far *)
Accepting == mode = "val" /\ Len(stack) = 1
Values    == stack[1].items
Dead      == mode = "dead"                 \* no extension can be accepted

-----------------------------------------------------------------------------
(* Part 2: the canonical encoder Enc lives in BencodeValues.tla *)
\* Design-level statement of C15 on the model: re-encoding what an accepted document decodes to
\* reproduces the document exactly when the document is canonical, and is never longer.
Canonical   == ~nc
ReEncodeInv == Accepting => /\ (Canonical <=> EncAll(Values) = inp)
                            /\ Len(EncAll(Values)) <= Len(inp)
=============================================================================
