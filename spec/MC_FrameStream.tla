---- MODULE MC_FrameStream ----
EXTENDS FrameStream
H20 == [i \in 1..20 |-> 160 + i]       \* info hash used in the menu
P20 == [i \in 1..20 |-> 64 + i]        \* peer id
Z4 == <<0, 0, 0, 0>>
BadPstr == <<67>> \o Tail(Pstr)         \* "CitTorrent protocol": byte 5 is still 'T'
MCMenu ==
  [ KeepAlive |-> Encode([k |-> "KeepAlive"]),
    Choke |-> Encode([k |-> "Choke"]),
    Unchoke |-> Encode([k |-> "Unchoke"]),
    Interested |-> Encode([k |-> "Interested"]),
    NotInterested |-> Encode([k |-> "NotInterested"]),
    Have1 |-> Encode([k |-> "Have", idx |-> <<0, 0, 0, 1>>]),
    Bitfield2 |-> Encode([k |-> "Bitfield", bits |-> <<160, 1>>]),
    Bitfield0 |-> Encode([k |-> "Bitfield", bits |-> <<>>]),
    Request |-> Encode([k |-> "Request", idx |-> <<0, 0, 0, 2>>, begin |-> <<0, 0, 64, 0>>, len |-> <<0, 0, 64, 0>>]),
    Cancel |-> Encode([k |-> "Cancel", idx |-> <<0, 0, 0, 2>>, begin |-> Z4, len |-> <<0, 0, 0, 7>>]),
    Piece3 |-> Encode([k |-> "Piece", idx |-> Z4, begin |-> <<0, 0, 0, 5>>, data |-> <<9, 8, 7>>]),
    Piece0 |-> Encode([k |-> "Piece", idx |-> <<255, 255, 255, 255>>, begin |-> Z4, data |-> <<>>]),
    Handshake |-> Encode([k |-> "Handshake", ih |-> H20, id |-> P20]),
    Unknown9 |-> <<0, 0, 0, 1, 9>>,
    Unknown20b3 |-> <<0, 0, 0, 4, 20, 1, 2, 3>>,
    Unknown255 |-> <<0, 0, 0, 1, 255>>,
    Unknown13b12 |-> <<0, 0, 0, 13, 13>> \o [i \in 1..12 |-> i],
    ChokeLen2 |-> <<0, 0, 0, 2, 0, 0>>,
    HaveLen4 |-> <<0, 0, 0, 4, 4, 0, 0, 1>>,
    HaveLen6 |-> <<0, 0, 0, 6, 4, 0, 0, 0, 1, 0>>,
    RequestLen12 |-> <<0, 0, 0, 12, 6>> \o [i \in 1..11 |-> 0],
    CancelLen14 |-> <<0, 0, 0, 14, 8>> \o [i \in 1..13 |-> 0],
    PieceLen8 |-> <<0, 0, 0, 8, 7, 0, 0, 0, 0, 0, 0, 0>>,
    InterestedLen64K |-> <<0, 1, 0, 0, 2>>,
    OversizeKnown |-> <<0, 1, 0, 1, 7, 1, 2, 3>>,
    OversizeUnknown |-> <<0, 1, 0, 1, 9, 1, 2, 3>>,
    OversizeMax |-> <<255, 255, 255, 255, 7>>,
    BigPiecePrefix |-> <<0, 1, 0, 0, 7, 0, 0, 0>>,
    HandshakeBadPstr |-> <<19>> \o BadPstr \o Reserved \o H20 \o P20,
    HandshakeLen18 |-> <<18>> \o Pstr \o Reserved \o H20 \o P20,
    Garbage |-> <<255, 254, 253, 252, 251, 250>> ]
\* smaller menu for streams of three items
MCMenuSmall == [n \in {"KeepAlive", "Choke", "Have1", "Piece3", "Unknown9", "Unknown20b3", "ChokeLen2",
                       "OversizeKnown", "BigPiecePrefix", "Garbage"} |-> MCMenu[n]]
MCCuts == {1, 2, 3, 4, 5, 6, 9, 13}
MCCutsFew == {3, 4, 5, 6}
MenuRoundTrip == \A n \in {"KeepAlive", "Choke", "Unchoke", "Interested", "NotInterested", "Have1", "Bitfield2",
                           "Bitfield0", "Request", "Cancel", "Piece3", "Piece0", "Handshake"} :
                    LET r == Parse(MCMenu[n]) IN r.d = "deliver" /\ r.n = Len(MCMenu[n]) /\ Encode(r.m) = MCMenu[n]
====
