---- MODULE MC_SwarmLive ----
(* C02 on the model: an honest environment (Appendix B of DESIGN.md) and weak fairness.            *)
(* Every peer of `Peers` connects once, sends its handshake, its bitfield Has[k], unchokes us and   *)
(* answers every outstanding request with good data; peers in `Leavers` may close their connection  *)
(* at any moment.  Under weak fairness of the client's own steps and of the honest peers' moves the  *)
(* download completes: <>(all pieces owned), provided the peers that stay offer every piece.         *)
EXTENDS Swarm
CONSTANTS Has,        \* peer -> set of pieces it holds
          Leavers     \* peers that may disconnect at any time
VARIABLES phase       \* per peer: 0 not connected, 1 connected, 2 handshake sent, 3 bitfield sent, 4 unchoked us, 5 gone, 6 choked us again
lvars == <<vars, phase>>
LInit == Init /\ phase = [k \in Peers |-> 0]
Adv(k, n) == phase' = [phase EXCEPT ![k] = n]
PConnect(k) == phase[k] = 0 /\ Connect(k, TRUE) /\ Adv(k, 1)
PHandshake(k) == phase[k] = 1 /\ HHandshake(k) /\ Adv(k, 2)
PBitfield(k) == phase[k] = 2 /\ HBitfield(k, Has[k]) /\ Adv(k, 3)
PUnchoke(k) == phase[k] = 3 /\ HUnchoke(k) /\ Adv(k, 4)
PServe(k) == phase[k] = 4 /\ h[k].alive /\ h[k].rx.p # None /\ h[k].rx.p \in Has[k]
             /\ \E b \in h[k].rx.req : HPiece(k, h[k].rx.p, b, TRUE)
             /\ UNCHANGED phase
\* a staying peer whose connection the client closed ("End job normally": nothing to fetch from it at that
\* moment) is reachable again: the client re-announces and the tracker lists it (handle_kill_req -> spawn_tracker)
PAgain(k) == /\ k \notin Leavers /\ phase[k] \in 1..4 /\ ~h[k].alive /\ k \notin Conn
             /\ \A i \in 1..Len(mq) : mq[i].k # k
             /\ Adv(k, 0) /\ UNCHANGED vars
\* a peer that is going to leave may choke us first (the piece we were fetching from it is released at the Choke,
\* the record of it only when the connection is gone)
PChokeUs(k) == k \in Leavers /\ phase[k] = 4 /\ h[k].alive /\ HChoke(k) /\ Adv(k, 6)
PLeave(k) == k \in Leavers /\ phase[k] \in {1, 2, 3, 4, 6} /\ h[k].alive /\ HEof(k) /\ Adv(k, 5)
Client == \/ \E k \in Peers : HBroadHave(k) \/ HBroadState(k) \/ HBroadReleased(k) \/ (\E n \in Pipeline : HReply(k, n))
          \/ ManagerStep
LStep == \/ \E k \in Peers : PConnect(k) \/ PHandshake(k) \/ PBitfield(k) \/ PUnchoke(k) \/ PServe(k) \/ PChokeUs(k) \/ PLeave(k) \/ PAgain(k)
         \/ (Client /\ UNCHANGED phase)
LNext == LStep /\ due' = DueNext
LSpec == /\ LInit /\ [][LNext]_lvars
         /\ WF_lvars(Client /\ UNCHANGED phase /\ due' = DueNext)
         /\ \A k \in Peers : WF_lvars((PConnect(k) \/ PHandshake(k) \/ PBitfield(k) \/ PUnchoke(k) \/ PServe(k) \/ PAgain(k)) /\ due' = DueNext)
Complete == \A p \in Pieces : st[p].k = "H"
\* the staying peers together offer every piece
Offered == \A p \in Pieces : \E k \in Peers \ Leavers : p \in Has[k]
EventuallyComplete == Offered => <>Complete
NoDeadEnd == ~panic
N1x3 == (1 :> 1) @@ (2 :> 1) @@ (3 :> 1)
N21 == (1 :> 2) @@ (2 :> 1)
N1x2 == (1 :> 1) @@ (2 :> 1)
HasA == [k \in Peers |-> IF k = "a" THEN {1, 2, 3} ELSE {1}]
HasQ == [k \in Peers |-> IF k = "a" THEN {1, 2} ELSE {1}]
HasB == [k \in Peers |-> IF k = "a" THEN {1} ELSE IF k = "b" THEN {1, 2} ELSE {3}]
====
