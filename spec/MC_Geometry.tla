---- MODULE MC_Geometry ----
EXTENDS Geometry
SmallPLs == 1..4
SmallFLs(p) == 0..6
QuickFLs(p) == {0, 1, 2, 3, 5}
BigPLs == {16383, 16384, 16385}
BigFLs(p) == {0, 1, p - 1, p, p + 1, 2 * p + 5}
HugePLs == {262144}
HugeFLs(p) == {0, 7, p - 1, p, p + 1}
CreateFLs(p) == {0, 1, p - 1, p, p + 1, 2 * p, 2 * p + 1, 3 * p - 1}
====
