----------------------------- MODULE TrackerDoc -----------------------------
(* C19 (reply parsing): tracker replies assembled from per-field variant menus with their bytes *)
(* and the reading the property demands: a failure reason makes the reply a failure; otherwise   *)
(* interval and the peers in listed order, skipping only malformed entries.                      *)
EXTENDS DocModel

CONSTANTS Groups, Variants, MaxMut,
          KFailure, KInterval, KPeers, KIp, KPeerId, KPort

VARIABLES choice, doc

Slots == {Groups[i] : i \in 1..Len(Groups)}
TopItemsOf(c) == FoldLeft(LAMBDA a, g : a \o Variants[g][c[g]].top, <<>>, Groups)
TrailingOf(c) == FoldLeft(LAMBDA a, g : a \o Variants[g][c[g]].tail, <<>>, Groups)

GoodPeer(e) == /\ e.t = "d"
               /\ IsStr(Get(e.v, KIp))
               /\ IsStr(Get(e.v, KPeerId)) /\ Len(Get(e.v, KPeerId).v) = 20
               /\ NonNegInt(Get(e.v, KPort))

ReadingOf(top, failure, interval, peers) ==
  LET peerList == IF peers.t = "l" THEN SelectSeq(peers.v, GoodPeer) ELSE <<>>
      isFailure == IsStr(failure)
  IN [failure |-> isFailure,
      \* a success reading: no failure reason, an interval and a peer list
      defined |-> UniqueKeys(top) /\ ~isFailure /\ NonNegInt(interval) /\ peers.t = "l",
      interval |-> IF IsInt(interval) THEN interval.d ELSE <<>>,
      peers |-> [i \in 1..Len(peerList) |->
                   [ip |-> Get(peerList[i].v, KIp).v, id |-> Get(peerList[i].v, KPeerId).v,
                    port |-> Get(peerList[i].v, KPort).d]]]

DocOf(c) == LET build(top, tail) ==
                  [bytes |-> Raw(ConV("d", top)) \o RawAll(tail),
                   reading |-> ReadingOf(top, Get(top, KFailure), Get(top, KInterval), Get(top, KPeers)),
                   stage |-> "done"]
            IN  build(TopItemsOf(c), TrailingOf(c))

MaxVar == CHOOSE n \in 1..64 : \A g \in Slots : Len(Variants[g]) <= n
Init == /\ choice = [g \in Slots |-> 1]
        /\ doc = [stage |-> "pick", mset |-> {}]
PickSlots == /\ doc.stage = "pick"
             /\ \E M \in {S \in SUBSET Slots : Cardinality(S) <= MaxMut} : doc' = [stage |-> "fill", mset |-> M]
             /\ UNCHANGED choice
Fill == /\ doc.stage = "fill"
        /\ \E m \in [doc.mset -> 2..MaxVar] :
              /\ \A g \in doc.mset : m[g] <= Len(Variants[g])
              /\ LET c == [g \in Slots |-> IF g \in doc.mset THEN m[g] ELSE 1]
                 IN  choice' = c /\ doc' = DocOf(c)
Next == PickSlots \/ Fill
Spec == Init /\ [][Next]_<<choice, doc>>

DefaultDefined == (doc.stage = "done" /\ \A g \in Slots : choice[g] = 1) => doc.reading.defined /\ Len(doc.reading.peers) = 2
\* a failure reason wins over everything else
FailureExclusive == doc.stage = "done" /\ doc.reading.failure => ~doc.reading.defined
=============================================================================
