------------------------------- MODULE Swarm -------------------------------
(* The rdest session at message level: one sequential manager (Session::event_loop), one        *)
(* sequential connection task per peer (PeerHandler::event_loop), the command channel           *)
(* between them (mpsc, FIFO), the reply of each RPC (oneshot), the broadcast channel and the    *)
(* piece store.  Remote peers are adversarial: any frame at any time.                           *)
(*                                                                                               *)
(* One action per critical section of the code:                                                  *)
(*   H*   a connection task consumes one trigger (frame / broadcast / timer tick / EOF); a      *)
(*        trigger that needs the manager is split in two: first half up to the command send     *)
(*        (HBegin), second half after the reply (HReply); the task is blocked in between.       *)
(*   M*   the manager handles the head of the command queue (one function of session.rs /       *)
(*        peer.rs each), or the rotation timer.                                                  *)
(* Pieces are 1..NPieces, 0 = none.  Blocks of piece p are 1..NBlocks[p], requested in order.    *)
(* Block data is abstracted to good/corrupt; a piece verifies iff all its blocks were good.      *)
(* All nondeterministic choices are action parameters so that the trace specification can bind   *)
(* them to what the implementation logged.                                                       *)
EXTENDS Naturals, Sequences, FiniteSets, TLC

CONSTANTS Peers,        \* names of the peers that may connect
          NPieces,
          NBlocks,      \* piece -> number of 16 KiB blocks
          EndGame,      \* END_GAME_LIMIT (10)
          MaxUnchoked,  \* MAX_UNCHOKED (10)
          OptRounds,    \* MAX_OPTIMISTIC_ROUNDS (3)
          KALimit,      \* KEEP_ALIVE_LIMIT (2)
          Pipeline,     \* set of allowed numbers of requests sent when a piece is started ({2} in rdest)
          Rates,        \* set of rate values the stats timer may report
          FrameKinds,   \* frame kinds the (adversarial) remote peers may send in this configuration
          BFMenu,       \* the piece sets a Bitfield frame may carry in this configuration
          Own0,         \* pieces owned and stored from the start (lets small configurations exercise uploads)
          Bugs,         \* names of as-found behaviours switched back on ({} = the repaired design); used only by the
                        \* *_AsFound configurations to show which invariant each defect breaks (see tools/spec_sensitivity.py)
          HS0           \* TRUE: connections start with the handshake exchange already done (configurations
                        \*       that are not about C08/C11 skip it to reach deeper histories)

Pieces == 1..NPieces
None == 0
NoConn == "-"       \* "no connection" (comparable with peer names that are strings or model values)

VARIABLES st,      \* manager: piece -> [k: "M"|"R"|"H", n: reservation count]
          mp,      \* manager: connected peer -> Peer record
          mg,      \* manager globals: [r: optimistic round counter, cands: tracker candidates not yet tried, ext: extraction started]
          mq,      \* command queue handler -> manager (global FIFO): [k, c, a]
          h,       \* connection task of each peer
          bq,      \* per connection: pending broadcast messages
          stored,  \* piece store on disk: pieces whose verified data has been written
          sent,    \* frames written by the last step and on which connection: [k, f]
          wire,    \* per connection what the remote saw last: [hs: own handshake sent, ch: "C"|"U"]
          panic,   \* the manager or a connection task panicked
          due,     \* ghost (C11): per connection the pieces whose completion was broadcast to it
          ann      \* ghost (C11): per connection the pieces announced with a Have frame, in order

vars == <<st, mp, mg, mq, h, bq, stored, sent, wire, panic, due, ann>>

-----------------------------------------------------------------------------
(* Records *)
NewPeer == [pcs |-> {}, pidx |-> None, amInt |-> FALSE, amCh |-> TRUE, int |-> FALSE, ch |-> TRUE,
            opt |-> FALSE, dl |-> None, ul |-> None, rated |-> FALSE]
NoRx == [p |-> None, req |-> {}, nxt |-> 1, bad |-> FALSE]
NewH(inc) == [alive |-> TRUE, inc |-> inc, hs |-> FALSE, ch |-> TRUE, ka |-> 0, rx |-> NoRx, tx |-> None,
              buf |-> <<>>, wait |-> FALSE, trig |-> [t |-> "Idle"], reply |-> [t |-> "none"]]
\* (ghost, for C11) due[k]: pieces whose completion was broadcast to k; ann[k]: Have frames written on k
DeadH == [NewH(FALSE) EXCEPT !.alive = FALSE]

Conn == DOMAIN mp
Bug(b) == b \in Bugs

\* frames (f.t): "Handshake" "KeepAlive" "Choke" "Unchoke" "Interested" "NotInterested" "Have" "Bitfield"
\*               "Request" "Piece" "Cancel"
F(t) == [t |-> t]
FHave(p) == [t |-> "Have", p |-> p]
FBitfield(S) == [t |-> "Bitfield", s |-> S]
FReq(p, b) == [t |-> "Request", p |-> p, b |-> b]
FCancel(p, b) == [t |-> "Cancel", p |-> p, b |-> b]
FPiece(p, b) == [t |-> "Piece", p |-> p, b |-> b]

-----------------------------------------------------------------------------
(* Manager: piece selection (C13) *)
Remaining == Cardinality({p \in Pieces : st[p].k # "H"})
Avail(p) == Cardinality({k \in Conn : p \in mp[k].pcs})
CandidatesIn(s, m, k) ==
  {p \in m[k].pcs \cap Pieces : s[p].k # "H" /\
      (s[p].k = "M" \/ Cardinality({q \in Pieces : s[q].k # "H"}) < EndGame)}
AvailIn(m, p) == Cardinality({k \in DOMAIN m : p \in m[k].pcs})
\* what a rarest-first choice may return for peer k in manager state (s, m): None iff no candidate
PickSetIn(s, m, k) ==
  LET C == CandidatesIn(s, m, k) IN
  IF C = {} THEN {None} ELSE {p \in C : \A q \in C : AvailIn(m, p) <= AvailIn(m, q)}
PickSet(k) == PickSetIn(st, mp, k)

Release(s, q) == IF q = None THEN s
                 ELSE [s EXCEPT ![q] = IF @.k = "R" THEN (IF @.n >= 2 THEN [k |-> "R", n |-> @.n - 1]
                                                          ELSE [k |-> "M", n |-> 0])
                                       ELSE @]
Reserve(s, p) == [s EXCEPT ![p] = IF @.k = "R" THEN [k |-> "R", n |-> @.n + 1]
                                  ELSE IF @.k = "M" THEN [k |-> "R", n |-> 1] ELSE @]
HaveSet == {p \in Pieces : st[p].k = "H"}
UnchokedNum == IF Bug("optCount") THEN Cardinality({k \in Conn : ~mp[k].amCh /\ mp[k].opt})
               ELSE Cardinality({k \in Conn : ~mp[k].amCh /\ ~mp[k].opt})

-----------------------------------------------------------------------------
Init == /\ st = [p \in Pieces |-> [k |-> IF p \in Own0 THEN "H" ELSE "M", n |-> 0]]
        /\ mp = [k \in {} |-> NewPeer]
        /\ mg = [r |-> 0, cands |-> 0, ext |-> FALSE]
        /\ mq = <<>>
        /\ h = [k \in Peers |-> DeadH]
        /\ bq = [k \in Peers |-> <<>>]
        /\ stored = Own0
        /\ sent = [k |-> NoConn, f |-> <<>>]
        /\ wire = [k \in Peers |-> [hs |-> FALSE, ch |-> "C"]]
        /\ panic = FALSE
        /\ due = [k \in Peers |-> <<>>]
        /\ ann = [k \in Peers |-> <<>>]

NoSend == sent' = [k |-> NoConn, f |-> <<>>]
Send(k, fs) == sent' = [k |-> k, f |-> fs]
\* effect of written frames on what the remote has seen
WireAfter(k, fs) ==
  LET chs == SelectSeq(fs, LAMBDA f : f.t \in {"Choke", "Unchoke"})
      w1 == IF \E i \in 1..Len(fs) : fs[i].t = "Handshake" THEN [wire[k] EXCEPT !.hs = TRUE] ELSE wire[k]
  IN  IF chs = <<>> THEN w1 ELSE [w1 EXCEPT !.ch = IF chs[Len(chs)].t = "Choke" THEN "C" ELSE "U"]
HavesIn(fs) == LET hs == SelectSeq(fs, LAMBDA f : f.t = "Have") IN [i \in 1..Len(hs) |-> hs[i].p]
Write(k, fs) == /\ Send(k, fs)
                /\ wire' = [wire EXCEPT ![k] = WireAfter(k, fs)]
                /\ ann' = [ann EXCEPT ![k] = @ \o HavesIn(fs)]
Quiet == NoSend /\ UNCHANGED <<wire, ann>>

Enq(k, c, a) == mq' = Append(mq, [k |-> k, c |-> c, a |-> a])

-----------------------------------------------------------------------------
(* Connections come and go *)
\* a peer connects to us (incoming) or we connect to a tracker candidate (outgoing); the manager
\* creates the Peer record and spawns the connection task (spawn_peer_listener / spawn_peer_handler)
\* (beyond the listed properties) the listener takes no new peer while MAX_NOT_INTERESTED connected peers have
\* nothing we want; connections we open ourselves are not limited this way
MaxNotInterested == 4
NotInterestedNum == Cardinality({x \in Conn : ~mp[x].amInt})
ConnectRefused == /\ ~panic /\ NotInterestedNum >= MaxNotInterested
                  /\ NoSend /\ UNCHANGED <<st, mp, mg, mq, h, bq, stored, wire, panic, ann>>
Connect(k, inc) ==
  /\ ~panic
  /\ inc => NotInterestedNum < MaxNotInterested
  /\ k \notin Conn /\ ~h[k].alive
  /\ \A i \in 1..Len(mq) : mq[i].k # k              \* the previous incarnation was cleaned up
  /\ mp' = [x \in Conn \cup {k} |-> IF x = k THEN NewPeer ELSE mp[x]]
  /\ bq' = [bq EXCEPT ![k] = <<>>]
  /\ wire' = [wire EXCEPT ![k] = [hs |-> HS0, ch |-> "C"]]
  /\ ann' = [ann EXCEPT ![k] = <<>>]
  \* the connection task is spawned; on a connection we opened it still has to start (HStart)
  /\ h' = [h EXCEPT ![k] = IF HS0 THEN [NewH(inc) EXCEPT !.hs = TRUE]
                            ELSE IF inc THEN NewH(TRUE)
                            ELSE [NewH(FALSE) EXCEPT !.trig = [t |-> "Start"]]]
  /\ NoSend /\ UNCHANGED mq
  \* a connection we open takes the next candidate announced by the tracker
  /\ mg' = IF inc THEN mg ELSE [mg EXCEPT !.cands = IF @ > 0 THEN @ - 1 ELSE 0]
  /\ UNCHANGED <<st, stored, panic>>

\* A connection from an address that still has a peer record (a remote whose outgoing connections use its
\* listening port, a reconnect the client has not noticed yet) is refused: one record and one task per address.
\* As found, the new record replaced the old one while the old task went on: its reservation lost its backing
\* and its next PieceDone / PieceCancel made the manager panic.
ConnectDup(k) ==
  /\ ~panic /\ k \in Conn
  /\ mp' = IF Bug("dupAccept") THEN [mp EXCEPT ![k] = NewPeer] ELSE mp
  /\ NoSend
  /\ UNCHANGED <<st, mg, mq, h, bq, stored, wire, panic, ann>>

\* the task ends (error, EOF, keep-alive timeout, "end job normally") and reports KillReq
Exit(k) == /\ h' = [h EXCEPT ![k] = DeadH]
           /\ Enq(k, "Kill", None)

-----------------------------------------------------------------------------
(* Connection task, first halves *)
Idle(k) == ~panic /\ h[k].alive /\ ~h[k].wait /\ h[k].trig.t # "Start"

\* on a connection we opened, the task first sends our handshake and asks the manager for the bitfield
HStart(k) == /\ ~panic /\ h[k].alive /\ ~h[k].wait /\ h[k].trig.t = "Start"
             /\ h' = [h EXCEPT ![k] = [@ EXCEPT !.wait = TRUE]]
             /\ Write(k, <<F("Handshake")>>)
             /\ Enq(k, "Init", None)
             /\ UNCHANGED <<st, mp, mg, bq, stored, panic>>
\* ... or the connection cannot be established
HConnFail(k) == /\ ~panic /\ h[k].alive /\ ~h[k].wait /\ h[k].trig.t = "Start"
                /\ Exit(k) /\ Quiet
                /\ UNCHANGED <<st, mp, mg, bq, stored, panic>>

NewRx(p) == [p |-> p, req |-> {}, nxt |-> 1, bad |-> FALSE]
\* request the next n blocks of rx (n may exceed what is left)
RECURSIVE ReqFrames(_, _, _)
ReqFrames(p, from, n) == IF n = 0 \/ from > NBlocks[p] THEN <<>>
                         ELSE <<FReq(p, from)>> \o ReqFrames(p, from + 1, n - 1)
AfterReq(rx, n) == LET m == IF rx.nxt + n - 1 > NBlocks[rx.p] THEN NBlocks[rx.p] - rx.nxt + 1 ELSE n
                   IN  [rx EXCEPT !.req = @ \cup (rx.nxt..(rx.nxt + m - 1)), !.nxt = @ + m]

\* a frame other than the handshake (or a keep-alive) before the remote handshake was validated,
\* a handshake for another torrent / from another peer, an invalid index: the task ends
HReject(k) == /\ Idle(k)
              /\ Exit(k)
              /\ Quiet
              /\ UNCHANGED <<st, mp, mg, bq, stored, panic>>

HHandshake(k) ==                                   \* valid handshake
  /\ Idle(k)
  /\ IF h[k].inc /\ ~h[k].hs
     THEN /\ h' = [h EXCEPT ![k] = [@ EXCEPT !.hs = TRUE, !.ka = 0, !.wait = TRUE, !.trig = F("Handshake")]]
          /\ Write(k, <<F("Handshake")>>)
          /\ Enq(k, "Init", None)
     ELSE /\ h' = [h EXCEPT ![k] = [@ EXCEPT !.hs = TRUE, !.ka = 0]]
          /\ Quiet /\ UNCHANGED mq
  /\ UNCHANGED <<st, mp, mg, bq, stored, panic>>

HKeepAlive(k) == /\ Idle(k)
                 /\ Quiet
                 /\ UNCHANGED <<st, mp, mg, mq, h, bq, stored, panic>>

Ready(k) == Idle(k) /\ (h[k].hs \/ Bug("preHandshake"))

HChoke(k) == /\ Ready(k)
             /\ h' = [h EXCEPT ![k] = [@ EXCEPT !.ch = TRUE, !.ka = 0]]
             /\ Enq(k, "Choke", None)
             /\ Quiet
             /\ UNCHANGED <<st, mp, mg, bq, stored, panic>>

HUnchoke(k) ==
  /\ Ready(k)
  /\ IF ~h[k].ch /\ ~Bug("dupUnchoke")
     THEN \* repeated Unchoke: nothing changes
          /\ h' = [h EXCEPT ![k] = [@ EXCEPT !.ka = 0]]
          /\ Quiet /\ UNCHANGED mq
     ELSE \* deferred Have announcements are delivered first, in completion order
          /\ h' = [h EXCEPT ![k] = [@ EXCEPT !.ch = FALSE, !.ka = 0, !.buf = <<>>, !.wait = TRUE, !.trig = F("Unchoke")]]
          /\ Write(k, [i \in 1..Len(h[k].buf) |-> FHave(h[k].buf[i])])
          /\ Enq(k, "Unchoke", None)
  /\ UNCHANGED <<st, mp, mg, bq, stored, panic>>

HInterested(k) == /\ Ready(k)
                  /\ h' = [h EXCEPT ![k] = [@ EXCEPT !.ka = 0]]
                  /\ Enq(k, "Interested", None)
                  /\ Quiet
                  /\ UNCHANGED <<st, mp, mg, bq, stored, panic>>

HCall(k, trig, c, a) == /\ h' = [h EXCEPT ![k] = [@ EXCEPT !.ka = 0, !.wait = TRUE, !.trig = trig]]
                        /\ Enq(k, c, a)

HNotInterested(k) == /\ Ready(k)
                     /\ HCall(k, F("NotInterested"), "NotInterested", None)
                     /\ Quiet
                     /\ UNCHANGED <<st, mp, mg, bq, stored, panic>>

HHave(k, p) == /\ Ready(k) /\ p \in Pieces
               /\ HCall(k, FHave(p), "Have", p)
               /\ Quiet
               /\ UNCHANGED <<st, mp, mg, bq, stored, panic>>

HBitfield(k, S) == /\ Ready(k) /\ S \subseteq Pieces
                   /\ HCall(k, FBitfield(S), "Bitfield", S)
                   /\ Quiet
                   /\ UNCHANGED <<st, mp, mg, bq, stored, panic>>

\* Request for piece p; ok = the range is inside the piece and at most 16 KiB.
\* A loaded piece is served without asking the manager again.
HRequest(k, p, ok) ==
  /\ Ready(k)
  /\ IF h[k].tx = p /\ p # None
     THEN IF ok THEN /\ h' = [h EXCEPT ![k] = [@ EXCEPT !.ka = 0]]
                     /\ Write(k, <<FPiece(p, 0)>>)
                     /\ UNCHANGED mq
               ELSE Exit(k) /\ Quiet
     ELSE /\ HCall(k, [t |-> "Request", p |-> p, ok |-> ok], "Request", p)
          /\ Quiet
  /\ UNCHANGED <<st, mp, mg, bq, stored, panic>>

\* Piece block b of piece p; good = its bytes are the original content
HPiece(k, p, b, good) ==
  /\ Ready(k)
  /\ LET rx == h[k].rx IN
     IF rx.p = p /\ p # None /\ b \in rx.req
     THEN LET rx1 == [rx EXCEPT !.req = @ \ {b}, !.bad = @ \/ ~good] IN
          IF rx1.req = {} /\ rx1.nxt > NBlocks[p]
          THEN IF rx1.bad
               THEN \* hash mismatch: nothing is written, the task ends (kill_peer frees the piece)
                    /\ Exit(k) /\ Quiet /\ UNCHANGED stored
               ELSE \* verified: store, then tell the manager
                    /\ stored' = stored \cup {p}
                    /\ h' = [h EXCEPT ![k] = [@ EXCEPT !.ka = 0, !.rx = NoRx, !.wait = TRUE, !.trig = F("PieceDone")]]
                    /\ Enq(k, "PieceDone", None)
                    /\ Quiet
          ELSE \* accepted: every accepted block is followed by a further request while blocks remain
               /\ h' = [h EXCEPT ![k] = [@ EXCEPT !.ka = 0, !.rx = AfterReq(rx1, 1)]]
               /\ Write(k, ReqFrames(p, rx1.nxt, 1))
               /\ UNCHANGED <<mq, stored>>
     ELSE \* not requested (wrong index / offset / length, duplicate, after completion): ignored
          /\ h' = [h EXCEPT ![k] = [@ EXCEPT !.ka = 0]]
          /\ Quiet /\ UNCHANGED <<mq, stored>>
  /\ UNCHANGED <<st, mp, mg, bq, panic>>

HCancel(k) == /\ Ready(k)
              /\ h' = [h EXCEPT ![k] = [@ EXCEPT !.ka = 0]]
              /\ Quiet
              /\ UNCHANGED <<st, mp, mg, mq, bq, stored, panic>>

\* the remote closes the connection (or sends something undecodable): the task ends at once
HEof(k) == HReject(k)

\* broadcast from the manager
HBroadHave(k) ==
  /\ Idle(k) /\ bq[k] # <<>> /\ Head(bq[k]).t = "have"
  /\ LET p == Head(bq[k]).p
         rx == h[k].rx IN
     /\ bq' = [bq EXCEPT ![k] = Tail(@)]
     /\ IF rx.p = p
        THEN \* somebody else completed the piece we are fetching: cancel and ask for other work
             /\ h' = [h EXCEPT ![k] = [@ EXCEPT !.rx = NoRx, !.wait = TRUE, !.trig = [t |-> "BroadHave", p |-> p]]]
             /\ Write(k, [i \in 1..Cardinality(rx.req) |->
                            FCancel(p, CHOOSE b \in rx.req : Cardinality({c \in rx.req : c < b}) = i - 1)])
             /\ Enq(k, "PieceCancel", None)
        ELSE /\ IF h[k].ch THEN /\ h' = [h EXCEPT ![k] = [@ EXCEPT !.buf = Append(@, p)]]
                                /\ Quiet
                           ELSE /\ Write(k, <<FHave(p)>>)
                                /\ UNCHANGED h
             /\ UNCHANGED mq
  /\ UNCHANGED <<st, mp, mg, stored, panic>>

\* PieceReleased: a task that is not choked by its peer and has nothing in flight asks the manager for work,
\* exactly as if the peer had just unchoked us; everybody else ignores it
HBroadReleased(k) ==
  /\ Idle(k) /\ bq[k] # <<>> /\ Head(bq[k]).t = "released"
  /\ bq' = [bq EXCEPT ![k] = Tail(@)]
  /\ IF h[k].hs /\ ~h[k].ch /\ h[k].rx.p = None
     THEN /\ h' = [h EXCEPT ![k] = [@ EXCEPT !.wait = TRUE, !.trig = [t |-> "BroadReleased"]]]
          /\ Enq(k, "Unchoke", None)
     ELSE UNCHANGED <<h, mq>>
  /\ Quiet
  /\ UNCHANGED <<st, mp, mg, stored, panic>>

HBroadState(k) ==
  /\ Idle(k) /\ bq[k] # <<>> /\ Head(bq[k]).t = "state"
  /\ bq' = [bq EXCEPT ![k] = Tail(@)]
  /\ LET v == Head(bq[k]).v IN              \* "C": we choke the peer, "U": we unchoke it, "-": not concerned
     IF v = "C" THEN /\ Write(k, <<F("Choke")>>)
                     /\ h' = [h EXCEPT ![k] = [@ EXCEPT !.tx = IF Bug("cacheAfterChoke") THEN @ ELSE None]]     \* nothing more is served
     ELSE IF v = "U" THEN Write(k, <<F("Unchoke")>>) /\ UNCHANGED h
     ELSE Quiet /\ UNCHANGED h
  /\ UNCHANGED <<st, mp, mg, mq, stored, panic>>

\* keep-alive timer (120 s)
HTickKA(k) ==
  /\ Idle(k)
  /\ IF h[k].ka = KALimit
     THEN Exit(k) /\ Quiet
     ELSE /\ h' = [h EXCEPT ![k] = [@ EXCEPT !.ka = @ + 1]]
          /\ Write(k, <<F("KeepAlive")>>)
          /\ UNCHANGED mq
  /\ UNCHANGED <<st, mp, mg, bq, stored, panic>>

\* stats timer (10 s): reports measured rates
HTickStats(k, dl, ul) == /\ Idle(k)
                         /\ Enq(k, "SyncStats", <<dl, ul>>)
                         /\ Quiet
                         /\ UNCHANGED <<st, mp, mg, h, bq, stored, panic>>

-----------------------------------------------------------------------------
(* Manager steps: one per handle_* function.  c is the piece choice (in PickSet at that moment). *)
MHead(k, c) == ~panic /\ mq # <<>> /\ Head(mq).k = k /\ Head(mq).c = c /\ k \in Conn
Reply(k, r) == h' = [h EXCEPT ![k] = [@ EXCEPT !.reply = r]]
Pop == mq' = Tail(mq)

MInit(k) == /\ MHead(k, "Init") /\ Pop
            /\ Reply(k, [t |-> "SendBitfield", s |-> HaveSet])
            /\ Quiet
            /\ UNCHANGED <<st, mp, mg, bq, stored, panic>>

\* (a piece that nobody fetches any more is announced to the connection tasks, see MKill)
Released(s, s1, q) == q # None /\ s[q].k = "R" /\ s1[q].k = "M"
Announce(rel) == bq' = IF rel /\ ~Bug("silentRelease")
                       THEN [x \in Peers |-> IF h[x].alive THEN Append(bq[x], [t |-> "released"]) ELSE bq[x]]
                       ELSE bq
MChoke(k) == /\ MHead(k, "Choke") /\ Pop
             /\ mp' = [mp EXCEPT ![k] = [@ EXCEPT !.ch = TRUE]]
             /\ st' = Release(st, mp[k].pidx)
             /\ Announce(Released(st, Release(st, mp[k].pidx), mp[k].pidx))
             /\ Quiet
             /\ UNCHANGED <<mg, h, stored, panic>>

MUnchoke(k, c) ==
  /\ MHead(k, "Unchoke") /\ Pop
  /\ c \in PickSet(k)
  /\ st' = IF c # None THEN Reserve(st, c) ELSE st
  /\ mp' = [mp EXCEPT ![k] = [@ EXCEPT !.ch = FALSE, !.pidx = c, !.amInt = (c # None)]]
  /\ Reply(k, IF c # None THEN [t |-> IF mp[k].amInt THEN "SendRequest" ELSE "SendInterestedAndRequest", p |-> c]
              ELSE [t |-> IF mp[k].amInt THEN "SendNotInterested" ELSE "Ignore"])
  /\ Quiet
  /\ UNCHANGED <<mg, bq, stored, panic>>

MInterested(k) == /\ MHead(k, "Interested") /\ Pop
                  /\ mp' = [mp EXCEPT ![k] = [@ EXCEPT !.int = TRUE]]
                  /\ Quiet
                  /\ UNCHANGED <<st, mg, h, bq, stored, panic>>

MNotInterested(k, c) ==
  /\ MHead(k, "NotInterested") /\ Pop
  /\ c \in PickSet(k)
  /\ mp' = [mp EXCEPT ![k] = [@ EXCEPT !.int = FALSE]]
  /\ Reply(k, [t |-> IF ~mp[k].amInt /\ mp[k].pidx = None /\ c = None THEN "PrepareKill" ELSE "Ignore"])
  /\ Quiet
  /\ UNCHANGED <<st, mg, bq, stored, panic>>

MHave(k) ==
  /\ MHead(k, "Have") /\ Pop
  /\ LET p == Head(mq).a
         m == mp[k] IN
     IF st[p].k = "M" /\ ~m.amInt
     THEN IF ~m.ch /\ m.pidx = None
          THEN /\ st' = [st EXCEPT ![p] = [k |-> "R", n |-> 1]]
               /\ mp' = [mp EXCEPT ![k] = [@ EXCEPT !.pcs = @ \cup {p}, !.pidx = p, !.amInt = TRUE]]
               /\ Reply(k, [t |-> "SendInterestedAndRequest", p |-> p])
          ELSE /\ mp' = [mp EXCEPT ![k] = [@ EXCEPT !.pcs = @ \cup {p}, !.amInt = TRUE]]
               /\ Reply(k, [t |-> "SendInterested"])
               /\ UNCHANGED st
     ELSE /\ mp' = [mp EXCEPT ![k] = [@ EXCEPT !.pcs = @ \cup {p}]]
          /\ Reply(k, [t |-> "Ignore"])
          /\ UNCHANGED st
  /\ Quiet
  /\ UNCHANGED <<mg, bq, stored, panic>>

MBitfield(k, c) ==
  /\ MHead(k, "Bitfield") /\ Pop
  /\ LET m1 == [mp EXCEPT ![k] = [@ EXCEPT !.pcs = Head(mq).a]]
         unch == UnchokedNum < MaxUnchoked /\ mp[k].amCh IN
     /\ c \in PickSetIn(st, m1, k)
     /\ mp' = [m1 EXCEPT ![k] = [@ EXCEPT !.amInt = (c # None), !.amCh = @ /\ ~unch]]
     \* the unchoke itself is announced through the broadcast channel, like the rotation's decisions
     /\ Reply(k, [t |-> "SendState", unch |-> (unch /\ Bug("replyUnchoke")), amInt |-> (c # None)])
     /\ bq' = IF unch /\ ~Bug("replyUnchoke") THEN [x \in Peers |-> IF h[x].alive
                                            THEN Append(bq[x], [t |-> "state", v |-> IF x = k THEN "U" ELSE "-"])
                                            ELSE bq[x]]
              ELSE bq
  /\ Quiet
  /\ UNCHANGED <<st, mg, stored, panic>>

MRequest(k) ==
  /\ MHead(k, "Request") /\ Pop
  /\ LET p == Head(mq).a IN
     Reply(k, [t |-> IF ~mp[k].amCh /\ p \in Pieces /\ st[p].k = "H" THEN "Load" ELSE "Ignore", p |-> p])
  /\ Quiet
  /\ UNCHANGED <<st, mp, mg, bq, stored, panic>>

\* common tail of PieceDone / PieceCancel (Peer::handle_piece) in manager state s
MPieceTail(k, c, s) ==
  /\ c \in PickSetIn(s, mp, k)
  /\ IF c # None
     THEN IF mp[k].ch /\ ~Bug("reserveChoked")
          THEN \* the peer chokes us: nothing is reserved, a later Unchoke assigns work
               /\ st' = s
               /\ mp' = [mp EXCEPT ![k] = [@ EXCEPT !.pidx = None]]
               /\ Reply(k, [t |-> "Ignore"])
          ELSE /\ st' = Reserve(s, c)
               /\ mp' = [mp EXCEPT ![k] = [@ EXCEPT !.pidx = c]]
               /\ Reply(k, IF mp[k].ch THEN [t |-> "Ignore"] ELSE [t |-> "SendRequest", p |-> c])
     ELSE /\ st' = s
          /\ mp' = [mp EXCEPT ![k] = [@ EXCEPT !.pidx = None, !.amInt = FALSE]]
          /\ Reply(k, [t |-> IF mp[k].int THEN "SendNotInterested" ELSE "PrepareKill"])

MPieceDone(k, c) ==
  /\ MHead(k, "PieceDone") /\ Pop
  /\ IF mp[k].pidx = None
     THEN /\ panic' = TRUE /\ UNCHANGED <<st, mp, h, bq>>
     ELSE /\ MPieceTail(k, c, [st EXCEPT ![mp[k].pidx] = [k |-> "H", n |-> 0]])
          \* SendHave goes to every connection task (including this one)
          /\ bq' = [x \in Peers |-> IF h[x].alive THEN Append(bq[x], [t |-> "have", p |-> mp[k].pidx]) ELSE bq[x]]
          /\ UNCHANGED panic
  /\ Quiet
  /\ UNCHANGED <<mg, stored>>

MPieceCancel(k, c) ==
  /\ MHead(k, "PieceCancel") /\ Pop
  /\ IF mp[k].pidx = None
     THEN /\ panic' = TRUE /\ UNCHANGED <<st, mp, h>>
     ELSE /\ MPieceTail(k, c, Release(st, mp[k].pidx))
          /\ UNCHANGED panic
  /\ Quiet
  /\ UNCHANGED <<mg, bq, stored>>

MSyncStats(k) == /\ MHead(k, "SyncStats") /\ Pop
                 /\ mp' = [mp EXCEPT ![k] = [@ EXCEPT !.dl = Head(mq).a[1], !.ul = Head(mq).a[2], !.rated = TRUE]]
                 /\ Quiet
                 /\ UNCHANGED <<st, mg, h, bq, stored, panic>>

\* KillReq: the piece assigned to the peer becomes assignable again, the peer is forgotten
\* A piece that becomes assignable this way is announced to every connection task (PieceReleased), so that a task
\* with nothing to fetch asks for work again.  (As found nothing was said: outside end game the piece stayed
\* unrequested although a connected peer that does not choke us holds it - found by TLC as a violation of
\* EventuallyComplete in MC_SwarmLive with EndGame = 1, reproduced on the code with 12 pieces.)
MKill(k) == /\ MHead(k, "Kill") /\ Pop
            /\ LET rel == mp[k].pidx # None /\ st[mp[k].pidx].k # "H" IN
               /\ st' = IF rel THEN [st EXCEPT ![mp[k].pidx] = [k |-> "M", n |-> 0]] ELSE st
               /\ Announce(rel)
            /\ mp' = [x \in Conn \ {k} |-> mp[x]]
            /\ Quiet
            /\ UNCHANGED <<mg, h, stored, panic>>

\* A good tracker reply adds its peers to the candidates (handle_tracker_cmd); connections are then opened
\* for candidates while fewer than MaxUnchoked + 1 peers interest us (Connect with inc = FALSE)
MTrackerPeers(n) == /\ ~panic
                    /\ mg' = [mg EXCEPT !.cands = @ + n]
                    /\ Quiet
                    /\ UNCHANGED <<st, mp, mq, h, bq, stored, panic>>
\* candidates that are already connected are dropped without a connection attempt
MDropCands(n) == /\ ~panic /\ n <= mg.cands
                 /\ mg' = [mg EXCEPT !.cands = @ - n]
                 /\ Quiet
                 /\ UNCHANGED <<st, mp, mq, h, bq, stored, panic>>
\* after a peer was forgotten (handle_kill_req): once every piece is owned the extractor is started, once
AllHave == \A p \in Pieces : st[p].k = "H"
MAfterKill == /\ ~panic
              /\ mg' = [mg EXCEPT !.ext = @ \/ AllHave]
              /\ Quiet
              /\ UNCHANGED <<st, mp, mq, h, bq, stored, panic>>

\* Choke rotation (timeout_change_conn_state + change_conn_state).
\*   order:  the connected peers sorted by rate, best first (ties in any order)
\*   newOpt: the new optimistic unchoke ({} or one choked interested peer), only in mg 0
IsSeeder == AllHave
RateOf(k) == IF IsSeeder THEN mp[k].dl ELSE mp[k].ul
RECURSIVE Rot(_, _, _, _)
\* walks `order`; returns the new am-choked flag of every peer walked, counting regular slots
Rot(order, newOpt, count, acc) ==
  IF order = <<>> THEN acc
  ELSE LET k == Head(order)
           m == mp[k]
           unch == count < MaxUnchoked /\ m.amCh /\ m.int /\ k \notin newOpt
           keep == count < MaxUnchoked /\ ~m.amCh /\ m.int
           ch1 == IF count < MaxUnchoked
                  THEN (IF unch THEN FALSE ELSE IF keep THEN FALSE ELSE IF ~m.amCh /\ ~m.int THEN TRUE ELSE m.amCh)
                  ELSE TRUE
       IN  Rot(Tail(order), newOpt, IF unch \/ keep THEN count + 1 ELSE count, acc @@ (k :> ch1))
MRotate(order, newOpt) ==
  /\ ~panic
  /\ mg' = [mg EXCEPT !.r = (@ + 1) % OptRounds]
  /\ IF \E k \in Conn : ~mp[k].rated
     THEN /\ Quiet /\ UNCHANGED <<st, mp, mq, h, bq, stored, panic>>       \* not all peers reported yet
     ELSE /\ Len(order) = Cardinality(Conn) /\ {order[i] : i \in 1..Len(order)} = Conn
          /\ \A i, j \in 1..Len(order) : i < j => RateOf(order[i]) >= RateOf(order[j])
          /\ newOpt \subseteq {k \in Conn : mp[k].amCh /\ mp[k].int}
          /\ IF mg'.r = 0 /\ \E k \in Conn : mp[k].amCh /\ mp[k].int
             THEN Cardinality(newOpt) = 1 ELSE newOpt = {}
          /\ LET res == Rot(order, newOpt, 0, <<>>)
                 newCh(k) == IF k \in newOpt THEN FALSE ELSE res[k]
             IN /\ mp' = [k \in Conn |-> [mp[k] EXCEPT !.amCh = newCh(k),
                                                   !.opt = IF newOpt # {} THEN k \in newOpt ELSE @]]
                /\ bq' = [k \in Peers |-> IF h[k].alive
                            THEN Append(bq[k], [t |-> "state",
                                                v |-> IF k \in Conn /\ newCh(k) # mp[k].amCh
                                                      THEN (IF newCh(k) THEN "C" ELSE "U") ELSE "-"])
                            ELSE bq[k]]
          /\ Quiet /\ UNCHANGED <<st, mq, h, stored, panic>>

-----------------------------------------------------------------------------
(* Connection task, second halves: the reply of the manager arrives *)
Replied(k) == ~panic /\ h[k].alive /\ h[k].wait /\ h[k].reply.t # "none"
Resume(k, hk) == h' = [h EXCEPT ![k] = [hk EXCEPT !.wait = FALSE, !.reply = [t |-> "none"], !.trig = [t |-> "Idle"]]]

\* n = number of requests pipelined when a piece is started
HReply(k, n) ==
  /\ Replied(k)
  /\ LET r == h[k].reply
         hk == h[k]
         start(p, withInt) ==
            /\ n \in Pipeline
            /\ Resume(k, [hk EXCEPT !.rx = AfterReq(NewRx(p), n)])
            /\ Write(k, (IF withInt THEN <<F("Interested")>> ELSE <<>>) \o ReqFrames(p, 1, n))
            /\ UNCHANGED <<mq, bq>>
         \* after a PieceCancel the Have that triggered it is announced (or deferred) last
         tailHave(fs, hk1) ==
            IF hk.trig.t = "BroadHave"
            THEN IF hk1.ch THEN Resume(k, [hk1 EXCEPT !.buf = Append(@, hk.trig.p)]) /\ Write(k, fs)
                 ELSE Resume(k, hk1) /\ Write(k, fs \o <<FHave(hk.trig.p)>>)
            ELSE Resume(k, hk1) /\ Write(k, fs)
     IN
     CASE r.t = "SendBitfield" ->
            Resume(k, hk) /\ Write(k, <<FBitfield(r.s)>>) /\ UNCHANGED <<mq, bq>>
       [] r.t = "SendInterestedAndRequest" -> start(r.p, TRUE)
       [] r.t = "SendRequest" /\ hk.trig.t = "Unchoke" -> start(r.p, FALSE)
       [] r.t = "SendRequest" /\ hk.trig.t # "Unchoke" ->
            /\ n \in Pipeline
            /\ tailHave(ReqFrames(r.p, 1, n), [hk EXCEPT !.rx = AfterReq(NewRx(r.p), n)])
            /\ UNCHANGED <<mq, bq>>
       [] r.t = "SendInterested" ->
            Resume(k, hk) /\ Write(k, <<F("Interested")>>) /\ UNCHANGED <<mq, bq>>
       [] r.t = "SendNotInterested" ->
            \* nothing to fetch: whatever was being assembled is dropped
            /\ tailHave(<<F("NotInterested")>>, IF Bug("keepRxOnNone") THEN hk ELSE [hk EXCEPT !.rx = NoRx])
            /\ UNCHANGED <<mq, bq>>
       [] r.t = "Ignore" /\ hk.trig.t = "Unchoke" ->
            Resume(k, IF Bug("keepRxOnNone") THEN hk ELSE [hk EXCEPT !.rx = NoRx]) /\ Quiet /\ UNCHANGED <<mq, bq>>
       [] r.t = "Ignore" /\ hk.trig.t = "Request" ->
            Resume(k, [hk EXCEPT !.tx = None]) /\ Quiet /\ UNCHANGED <<mq, bq>>
       [] r.t = "Ignore" /\ hk.trig.t \notin {"Unchoke", "Request"} ->
            tailHave(<<>>, hk) /\ UNCHANGED <<mq, bq>>
       [] r.t = "SendState" ->
            /\ Resume(k, hk)
            /\ Write(k, (IF r.unch THEN <<F("Unchoke")>> ELSE <<>>)
                        \o <<F(IF r.amInt THEN "Interested" ELSE "NotInterested")>>)
            /\ UNCHANGED <<mq, bq>>
       [] r.t = "PrepareKill" /\ hk.trig.t # "BroadHave" ->      \* "end job normally"
            /\ h' = [h EXCEPT ![k] = DeadH]
            /\ Enq(k, "Kill", None) /\ Quiet /\ UNCHANGED bq
       [] r.t = "PrepareKill" /\ hk.trig.t = "BroadHave" ->
            \* (as coded: on the broadcast path the result of the PieceCancel call is not looked at, so the
            \*  task stays; no property asks for the connection to be dropped)
            tailHave(<<>>, hk) /\ UNCHANGED <<mq, bq>>
       [] r.t = "Load" ->
            \* the piece is read from the store; then the request is validated and answered
            IF r.p \notin stored
            THEN /\ h' = [h EXCEPT ![k] = DeadH]
                 /\ Enq(k, "Kill", None) /\ Quiet /\ UNCHANGED bq
            ELSE IF hk.trig.ok
                 THEN Resume(k, [hk EXCEPT !.tx = r.p]) /\ Write(k, <<FPiece(r.p, 0)>>) /\ UNCHANGED <<mq, bq>>
                 ELSE /\ h' = [h EXCEPT ![k] = DeadH]
                      /\ Enq(k, "Kill", None) /\ Quiet /\ UNCHANGED bq
  /\ UNCHANGED <<st, mp, mg, stored, panic>>

\* the connection breaks while the task acts on a reply (a write fails): the task ends, whatever the reply was
HReplyLost(k) == /\ Replied(k)
                 /\ h' = [h EXCEPT ![k] = DeadH]
                 /\ Enq(k, "Kill", None) /\ Quiet
                 /\ UNCHANGED <<st, mp, mg, bq, stored, panic>>

-----------------------------------------------------------------------------
FK(t) == t \in FrameKinds
FrameStep(k) ==
  \/ FK("Bad") /\ HReject(k)
  \/ FK("Handshake") /\ HHandshake(k)
  \/ FK("KeepAlive") /\ HKeepAlive(k)
  \/ FK("Choke") /\ HChoke(k)
  \/ FK("Unchoke") /\ HUnchoke(k)
  \/ FK("Interested") /\ HInterested(k)
  \/ FK("NotInterested") /\ HNotInterested(k)
  \/ FK("Cancel") /\ HCancel(k)
  \/ FK("Have") /\ \E p \in Pieces : HHave(k, p)
  \/ FK("Bitfield") /\ \E S \in BFMenu : HBitfield(k, S)
  \/ FK("Request") /\ \E p \in Pieces \cup {NPieces + 1}, ok \in BOOLEAN : HRequest(k, p, ok)
  \/ FK("Piece") /\ \E p \in Pieces, b \in 1..3, good \in BOOLEAN : b <= NBlocks[p] /\ HPiece(k, p, b, good)
  \* a frame other than handshake / keep-alive before the handshake ends the connection
  \/ ~h[k].hs /\ ~Bug("preHandshake") /\ (FrameKinds \ {"Handshake", "KeepAlive", "Bad"}) # {} /\ HReject(k)

HandlerStep(k) ==
  \/ FrameStep(k) \/ HStart(k) \/ HConnFail(k) \/ HBroadHave(k) \/ HBroadState(k) \/ HBroadReleased(k) \/ HTickKA(k)
  \/ \E dl \in Rates, ul \in Rates : HTickStats(k, dl, ul)
  \/ \E n \in Pipeline : HReply(k, n)
  \/ FK("Bad") /\ HReplyLost(k)

ManagerStep ==
  \/ (AllHave /\ ~mg.ext /\ MAfterKill)
  \/ \E k \in Peers :
     \/ MInit(k) \/ MChoke(k) \/ MInterested(k) \/ MHave(k) \/ MRequest(k) \/ MSyncStats(k) \/ MKill(k)
     \/ \E c \in Pieces \cup {None} : MUnchoke(k, c) \/ MNotInterested(k, c) \/ MBitfield(k, c)
                                      \/ MPieceDone(k, c) \/ MPieceCancel(k, c)

Perms(S) == {f \in [1..Cardinality(S) -> S] : \A i, j \in 1..Cardinality(S) : f[i] = f[j] => i = j}
Rotation == \E order \in Perms(Conn), newOpt \in SUBSET Conn : MRotate(order, newOpt)

\* ghost bookkeeping derived from the step: a completion broadcast extends due, a new connection resets it
DueNext == [k \in Peers |->
              IF k \notin Conn /\ k \in DOMAIN mp' THEN <<>>
              ELSE IF Len(bq'[k]) = Len(bq[k]) + 1 /\ bq'[k][Len(bq'[k])].t = "have"
                   THEN Append(due[k], bq'[k][Len(bq'[k])].p)
                   ELSE due[k]]

\* handlers drain their broadcast queue within a rotation period (10 s): assumed for rotations
BroadcastDrained == \A k \in Peers : bq[k] = <<>>

Step == \/ \E k \in Peers, inc \in BOOLEAN : Connect(k, inc)
        \/ \E k \in Peers : HandlerStep(k)
        \/ ManagerStep
        \/ BroadcastDrained /\ Rotation
Next == Step /\ due' = DueNext

Spec == Init /\ [][Next]_vars

-----------------------------------------------------------------------------
(* Properties.  sent/wire describe the frames written by the last step. *)
SentOn == sent.k
SentHas(t) == \E i \in 1..Len(sent.f) : sent.f[i].t = t
SentPieces(t) == {sent.f[i].p : i \in {j \in 1..Len(sent.f) : sent.f[j].t = t}}

\* --- C01 ----------------------------------------------------------------------------------
\* a piece is owned only after its verified data was stored
OwnedImpliesStored == \A p \in Pieces : st[p].k = "H" => p \in stored
\* only stored pieces are served or advertised
ServedImpliesStored == SentPieces("Piece") \subseteq stored
AdvertisedImpliesStored == /\ SentPieces("Have") \subseteq stored
                           /\ \A i \in 1..Len(sent.f) : sent.f[i].t = "Bitfield" => sent.f[i].s \subseteq stored
\* a corrupt assembly is never stored and never becomes owned through that connection
BadNeverStored == [][\A k \in Peers : h[k].rx.bad => (stored' = stored \/ \E x \in Peers \ {k} : h'[x] # h[x])]_vars

\* --- C08 ----------------------------------------------------------------------------------
\* before the remote handshake was validated only our own handshake and keep-alives are written
SilentBeforeHandshake ==
  SentOn # NoConn /\ ~h[SentOn].hs =>
     \A i \in 1..Len(sent.f) :
        sent.f[i].t \in (IF h[SentOn].inc THEN {"KeepAlive"} ELSE {"Handshake", "Bitfield", "KeepAlive"})
\* no piece data without a completed handshake, on any connection
NoDataBeforeHandshake == SentHas("Piece") => h[SentOn].hs
\* everything else is written only after our own handshake
OwnHandshakeFirst ==
  SentOn # NoConn /\ (\E i \in 1..Len(sent.f) : sent.f[i].t \notin {"Handshake", "KeepAlive"}) => wire[SentOn].hs

\* --- C09 ----------------------------------------------------------------------------------
\* piece data is written only while the peer is unchoked (as the peer has been told, or as the
\* manager has already decided with the Unchoke still on its way)
ServeOnlyUnchoked == SentHas("Piece") => (wire[SentOn].ch = "U" \/ (SentOn \in Conn /\ ~mp[SentOn].amCh))
\* a loaded piece is dropped as soon as the peer is told it is choked
NoCacheWhileChoked == \A k \in Peers : h[k].alive /\ h[k].tx # None =>
                         (wire[k].ch = "U" \/ (k \in Conn /\ ~mp[k].amCh) \/ h[k].wait)

\* --- C10 ----------------------------------------------------------------------------------
RxShape == \A k \in Peers : LET rx == h[k].rx IN
              rx.p # None => /\ rx.nxt \in 1..(NBlocks[rx.p] + 1)
                             /\ rx.req \subseteq 1..(rx.nxt - 1)
\* requests written in a step name the piece being assembled and its next blocks, once each
RequestsTile ==
  SentHas("Request") =>
     LET rx == h[SentOn].rx
         rq == SelectSeq(sent.f, LAMBDA f : f.t = "Request") IN
     /\ rx.p # None
     /\ \A i \in 1..Len(rq) : rq[i].p = rx.p /\ rq[i].b = rx.nxt - Len(rq) + i - 1
     /\ \A i \in 1..Len(rq) : rq[i].b \in rx.req

\* --- C11 ----------------------------------------------------------------------------------
\* announcements on a connection are a prefix-order-preserving image of the completions broadcast to it:
\* what was announced so far is a prefix of due, and nothing due is lost (it is announced, deferred
\* in buf, pending in the broadcast queue, or being handled right now)
IsPrefix(a, b) == Len(a) <= Len(b) /\ SubSeq(b, 1, Len(a)) = a
PendingHaves(k) == LET q == SelectSeq(bq[k], LAMBDA m : m.t = "have") IN [i \in 1..Len(q) |-> q[i].p]
InHand(k) == IF h[k].wait /\ h[k].trig.t = "BroadHave" THEN <<h[k].trig.p>> ELSE <<>>
AnnouncedInOrder == \A k \in Peers : h[k].alive => ann[k] \o h[k].buf \o InHand(k) \o PendingHaves(k) = due[k]
DeferredWhileChoked == \A k \in Peers : h[k].alive /\ h[k].buf # <<>> => h[k].ch

\* --- C12 ----------------------------------------------------------------------------------
HaveStable == [][\A p \in Pieces : st[p].k = "H" => st'[p].k = "H"]_vars
\* the manager's view of peer k is up to date unless k has a command in flight / is being killed
InFlight(k) == ~h[k].alive \/ h[k].wait \/ \E i \in 1..Len(mq) : mq[i].k = k
Asked(k, p) == h[k].rx.p = p \/ InFlight(k)
ReservedBacked == \A p \in Pieces : st[p].k = "R" =>
                     \E k \in Conn : mp[k].pidx = p /\ ~mp[k].ch /\ Asked(k, p)
\* counting form (reported separately): the counter never exceeds the number of such peers
ReservedCountBacked == \A p \in Pieces : st[p].k = "R" =>
                          st[p].n <= Cardinality({k \in Conn : mp[k].pidx = p /\ ~mp[k].ch /\ Asked(k, p)})
\* a peer is asked only for pieces it advertised and the client lacks
AskOnlyAdvertisedAndLacked ==
  \A k \in Conn : h[k].alive /\ h[k].reply.t \in {"SendRequest", "SendInterestedAndRequest"} =>
                      h[k].reply.p \in mp[k].pcs
RxOnlyAdvertised == \A k \in Conn : h[k].alive /\ h[k].rx.p # None /\ ~InFlight(k) => h[k].rx.p \in mp[k].pcs
NoPanic == ~panic
\* manager assignment and connection task agree whenever nothing is in flight
AssignmentAgrees == \A k \in Conn : ~InFlight(k) /\ ~mp[k].ch => mp[k].pidx = h[k].rx.p

\* --- C13 ----------------------------------------------------------------------------------
PickSound == \A k \in Conn : \A c \in PickSet(k) :
               LET C == CandidatesIn(st, mp, k) IN
               /\ (c = None <=> C = {})
               /\ c # None => /\ c \in mp[k].pcs /\ st[c].k # "H"
                               /\ (st[c].k = "M" \/ Remaining < EndGame)
                               /\ ~\E q \in C : Avail(q) < Avail(c)

\* --- C14 ----------------------------------------------------------------------------------
SlotBound == /\ Cardinality({k \in Conn : ~mp[k].amCh /\ ~mp[k].opt}) <= MaxUnchoked
             /\ Cardinality({k \in Conn : ~mp[k].amCh /\ mp[k].opt}) <= 1
RotExecuted == mg'.r # mg.r /\ DOMAIN mp' = Conn /\ \A k \in Conn : mp[k].rated
PolicyAfter == /\ \A k \in Conn : ~mp'[k].amCh /\ ~mp'[k].opt => mp[k].int
               /\ \A k \in Conn : ~mp[k].int => mp'[k].amCh
               /\ ~\E a, b \in Conn : /\ mp[a].int /\ mp'[a].amCh
                                       /\ ~mp'[b].amCh /\ ~mp'[b].opt
                                       /\ RateOf(a) > RateOf(b)
RotationPolicy == [][RotExecuted => PolicyAfter]_vars
NoStatePending(k) == /\ ~\E i \in 1..Len(bq[k]) : bq[k][i].t = "state"
                     /\ ~(h[k].wait /\ \E i \in 1..Len(mq) : mq[i].k = k /\ mq[i].c = "Bitfield")
                     /\ ~(h[k].wait /\ h[k].reply.t = "SendState")
ViewAgreement == \A k \in Conn : h[k].alive /\ NoStatePending(k) => ((wire[k].ch = "C") <=> mp[k].amCh)

\* --- per-step forms of the checks that read `sent` (so that `sent` can be left out of the VIEW) ----------
C01Step == [][(ServedImpliesStored /\ AdvertisedImpliesStored)']_vars
C08Step == [][(SilentBeforeHandshake /\ NoDataBeforeHandshake /\ OwnHandshakeFirst)']_vars
C09Step == [][ServeOnlyUnchoked']_vars
C10Step == [][RequestsTile']_vars

\* --- beyond the listed properties: the extractor is started only with a complete store -----------
ExtractOnlyComplete == mg.ext => AllHave

\* --- C20 ----------------------------------------------------------------------------------
KaBound == \A k \in Peers : h[k].ka <= KALimit

TypeOK == /\ \A p \in Pieces : st[p].k \in {"M", "R", "H"} /\ (st[p].k = "R" <=> st[p].n > 0)
          /\ Conn \subseteq Peers
          /\ stored \subseteq Pieces
=============================================================================
