------------------------------ MODULE Announce ------------------------------
(* C18: the tracker announce request.  Bytes are numbers 0..255.  The module defines the        *)
(* application/x-www-form-urlencoded byte serialisation (Encode) and its inverse (Decode),       *)
(* the announce-URL shapes and the abstract request the property demands:                        *)
(*   path of the announce URL, and as decoded query parameters the URL's own parameters plus     *)
(*   info_hash (exactly the 20 hash bytes), peer_id, port, uploaded, downloaded, left, event,     *)
(*   numwant.  Every initial state is one case (hash vector x URL shape x total length).          *)
EXTENDS Naturals, Sequences, FiniteSets, TLC, SequencesExt

CONSTANTS Classes,     \* representative byte of every byte class
          Positions,   \* positions (1..20) where a class byte is planted
          Shapes,      \* announce URL shapes: [path, query (text after ?, or "none"), own (decoded params)]
          Totals       \* total lengths, as decimal strings

VARIABLES case

Alnum == (48..57) \cup (65..90) \cup (97..122)
Safe == Alnum \cup {42, 45, 46, 95}              \* * - . _
Hex == <<48,49,50,51,52,53,54,55,56,57,65,66,67,68,69,70>>
EncByte(b) == IF b \in Safe THEN <<b>> ELSE IF b = 32 THEN <<43>>
              ELSE <<37, Hex[(b \div 16) + 1], Hex[(b % 16) + 1]>>
Encode(bs) == FoldLeft(LAMBDA a, b : a \o EncByte(b), <<>>, bs)
HexVal(c) == IF c \in 48..57 THEN c - 48 ELSE IF c \in 65..70 THEN c - 55 ELSE c - 87
RECURSIVE Decode(_)
Decode(cs) == IF cs = <<>> THEN <<>>
              ELSE IF cs[1] = 37 /\ Len(cs) >= 3 THEN <<HexVal(cs[2]) * 16 + HexVal(cs[3])>> \o Decode(SubSeq(cs, 4, Len(cs)))
              ELSE IF cs[1] = 43 THEN <<32>> \o Decode(Tail(cs))
              ELSE <<cs[1]>> \o Decode(Tail(cs))

Base == [i \in 1..20 |-> 96 + i]                  \* "abcdefghijklmnopqrst"
Hashes == {Base} \cup {[Base EXCEPT ![p] = c] : p \in Positions, c \in Classes}
          \cup {[i \in 1..20 |-> c] : c \in Classes}
          \cup {[i \in 1..20 |-> IF i % 2 = 0 THEN c ELSE 37] : c \in Classes}

Init == \E h \in Hashes, s \in Shapes, t \in Totals :
           case = [hash |-> h, shape |-> s, total |-> t, enc |-> Encode(h)]
Next == UNCHANGED case
Spec == Init /\ [][Next]_case

\* design-level: the serialisation is injective and URL-safe
RoundTrip == Decode(case.enc) = case.hash
UrlSafe == \A i \in 1..Len(case.enc) : case.enc[i] \in Safe \cup {37, 43}
=============================================================================
