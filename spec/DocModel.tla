------------------------------ MODULE DocModel ------------------------------
(* Bencoded documents as ordered trees (no sorting, leading-zero length prefixes allowed),    *)
(* their exact serialisation with byte spans, and "what a dictionary says" (lookup by key).    *)
(* Shared by MetainfoDoc (C05, C17) and TrackerDoc (C19).  Values are those of Bencode.tla:    *)
(*   [t |-> "i", neg, d]   [t |-> "s", v (, lz)]   [t |-> "l"/"d", v |-> items]                 *)
(* where a dictionary's items are k1, v1, k2, v2, ... in document order.                        *)
EXTENDS BencodeValues

RECURSIVE Raw(_)
RawAll(vs) == FoldLeft(LAMBDA a, v : a \o Raw(v), <<>>, vs)
Raw(v) == CASE v.t = "i" -> <<"i">> \o (IF v.neg THEN <<"-">> ELSE <<>>) \o v.d \o <<"e">>
            [] v.t = "s" -> (IF "lz" \in DOMAIN v THEN <<"0">> ELSE <<>>)
                            \o NatDigits(Len(v.v)) \o <<":">> \o v.v
            [] v.t \in {"l", "d"} -> <<v.t>> \o RawAll(v.v) \o <<"e">>

\* the value a dictionary (items k1,v1,...) gives for key k (symbols), or Nil
Nil == [t |-> "nil"]
Has(items, k) == \E i \in 1..(Len(items) \div 2) : items[2*i-1].v = k
Get(items, k) == IF Has(items, k)
                 THEN items[2 * (CHOOSE i \in 1..(Len(items) \div 2) : items[2*i-1].v = k)]
                 ELSE Nil
\* keys occur at most once (the reading of a duplicate key is not defined by the property)
UniqueKeys(items) == \A i, j \in 1..(Len(items) \div 2) : items[2*i-1].v = items[2*j-1].v => i = j

\* number of symbols before the value of key k when the dictionary is serialised
RECURSIVE OffsetOf(_, _)
OffsetOf(items, k) == IF items[1].v = k THEN Len(Raw(items[1]))
                      ELSE Len(Raw(items[1])) + Len(Raw(items[2])) + OffsetOf(SubSeq(items, 3, Len(items)), k)

IsStr(x) == x.t = "s"
IsInt(x) == x.t = "i"
NonNegInt(x) == x.t = "i" /\ ~x.neg
=============================================================================
