------------------------------ MODULE SwarmObs ------------------------------
(* Property-level reading of a recorded execution (second opinion for SwarmTrace.tla).            *)
(*                                                                                                 *)
(* SwarmTrace.tla asks "is this execution a behaviour of Swarm.tla?".  When the answer is no, the   *)
(* step that Swarm.tla cannot explain is either a defect or a behaviour the properties allow but    *)
(* the specification does not describe (another request order, another moment for Interested, ...). *)
(* This module decides which: it does NOT use the actions of Swarm.tla.  Every event simply installs *)
(* the logged state (manager state after a manager step, task state and written frames after a task *)
(* step); the few variables that are not logged are reconstructed from the events alone (command    *)
(* queue = Calls not yet handled, store = PieceDone claims confirmed by the disk scans, wire view    *)
(* and announcements = the frames written).  The property formulas of Swarm.tla - the same          *)
(* definitions - are then evaluated by TLC in every state, together with step formulas that state    *)
(* each property directly on what was observed.  A violation here is a violation of the property     *)
(* itself, whatever the specification says about how the client should have got there.               *)
EXTENDS SwarmTrace

VARIABLES td,        \* per connection: blocks of the piece being assembled that were not requested yet (logged)
          bfs        \* per connection: the pieces owned when the manager answered Init (what the bitfield must say)
ovars == <<tvars, td, bfs>>

MgrLog == st' = LogSt /\ mp' = LogMp /\ mg' = LogMg
TodoLog == ToSet(Ev.hs.todo)
\* the logged task state; wait / trig / reply are bookkeeping of this module
ObsH(k, alive, wait, trig, reply) ==
  [alive |-> alive, inc |-> h[k].inc, hs |-> Ev.hs.hs, ch |-> Ev.hs.ch, ka |-> Ev.hs.ka,
   rx |-> [p |-> Ev.hs.rxp, req |-> ToSet(Ev.hs.req), nxt |-> 1, bad |-> FALSE],
   tx |-> Ev.hs.tx, buf |-> Ev.hs.buf, wait |-> wait, trig |-> trig, reply |-> reply]
Wrote(k) == IF LogSent = <<>> THEN Quiet ELSE Write(k, LogSent)
RECURSIVE DropFirst(_, _, _)
DropFirst(q, k, c) == IF q = <<>> THEN <<>>
                      ELSE IF Head(q).k = k /\ Head(q).c = c THEN Tail(q)
                      ELSE <<Head(q)>> \o DropFirst(Tail(q), k, c)

OInit == TInit /\ td = [k \in Peers |-> {}] /\ bfs = [k \in Peers |-> {}]

OReset == TReset /\ td' = [k \in Peers |-> {}] /\ bfs' = [k \in Peers |-> {}]

OConnect ==
  /\ Ev.e = "Connect"
  /\ MgrLog
  /\ h' = [h EXCEPT ![K] = IF Ev.inc THEN NewH(TRUE) ELSE [NewH(FALSE) EXCEPT !.trig = [t |-> "Start"]]]
  /\ wire' = [wire EXCEPT ![K] = [hs |-> FALSE, ch |-> "C"]]
  /\ ann' = [ann EXCEPT ![K] = <<>>]
  /\ due' = [due EXCEPT ![K] = <<>>]
  /\ td' = [td EXCEPT ![K] = {}] /\ bfs' = [bfs EXCEPT ![K] = {}]
  /\ NoSend /\ UNCHANGED <<mq, bq, stored, panic>>

OMgrOnly ==      \* ConnectDup, ConnectRefused, Rotate, TrackerPeers, Settle: manager state changes only
  /\ Ev.e \in {"ConnectDup", "ConnectRefused", "Rotate", "TrackerPeers", "Settle"}
  /\ MgrLog
  /\ NoSend /\ UNCHANGED <<mq, h, bq, stored, wire, panic, due, ann, td, bfs>>

OCall ==
  /\ Ev.e = "Call"
  /\ h' = [h EXCEPT ![K] = ObsH(K, TRUE, TRUE, Ev.trig, [t |-> "none"])]
  /\ td' = [td EXCEPT ![K] = TodoLog]
  /\ Wrote(K)
  /\ mq' = Append(mq, [k |-> K, c |-> Ev.cmd, a |-> None])
  \* PieceDone is the task's claim that the verified piece has been written; the disk scans confirm it
  /\ stored' = IF Ev.cmd = "PieceDone" /\ h[K].rx.p # None THEN stored \cup {h[K].rx.p} ELSE stored
  /\ UNCHANGED <<st, mp, mg, bq, panic, due, bfs>>

\* the piece a request-carrying reply assigns: the manager's own record of it
Assigned == IF K \in DOMAIN LogMp THEN LogMp[K].pidx ELSE None
NewlyOwned == {p \in Pieces : st[p].k # "H" /\ LogSt[p].k = "H"}
OMgr ==
  /\ Ev.e = "Mgr"
  /\ MgrLog
  /\ mq' = DropFirst(mq, K, Ev.cmd)
  /\ h' = IF h[K].alive /\ h[K].wait THEN [h EXCEPT ![K].reply = [t |-> Ev.reply, p |-> Assigned]] ELSE h
  /\ bfs' = IF Ev.cmd = "Init" THEN [bfs EXCEPT ![K] = {p \in Pieces : LogSt[p].k = "H"}] ELSE bfs
  \* a completion is broadcast to every running connection task
  /\ due' = [k \in Peers |-> IF h[k].alive /\ NewlyOwned # {} THEN Append(due[k], CHOOSE p \in NewlyOwned : TRUE) ELSE due[k]]
  /\ NoSend /\ UNCHANGED <<bq, stored, wire, panic, ann, td>>

OEnd ==
  /\ Ev.e = "End"
  /\ h' = [h EXCEPT ![K] = ObsH(K, TRUE, FALSE, [t |-> "Idle"], [t |-> "none"])]
  /\ td' = [td EXCEPT ![K] = TodoLog]
  /\ Wrote(K)
  /\ UNCHANGED <<st, mp, mg, mq, bq, stored, panic, due, bfs>>

OExit ==
  /\ Ev.e = "Exit"
  /\ h' = [h EXCEPT ![K] = ObsH(K, FALSE, FALSE, [t |-> "Idle"], [t |-> "none"])]
  /\ td' = [td EXCEPT ![K] = {}]
  /\ Wrote(K)
  /\ mq' = Append(mq, [k |-> K, c |-> "Kill", a |-> None])
  /\ UNCHANGED <<st, mp, mg, bq, stored, panic, due, bfs>>

ODisk == /\ Ev.e = "Disk"
         /\ stored' = ToSet(Ev.good)
         /\ NoSend /\ UNCHANGED <<st, mp, mg, mq, h, bq, wire, panic, due, ann, td, bfs>>

OPanic == TPanic /\ UNCHANGED <<td, bfs>>

ONext == /\ l <= Len(Rec)
         /\ l' = l + 1
         /\ (OReset \/ OConnect \/ OMgrOnly \/ OCall \/ OMgr \/ OEnd \/ OExit \/ ODisk \/ OPanic)
         /\ TLCSet(1, l)
OSpec == OInit /\ [][ONext]_ovars

-----------------------------------------------------------------------------
(* Step formulas: each is [][ ... ]_ovars over the event consumed by the step (Ev, in the unprimed   *)
(* state) and the states before / after it.                                                          *)
At(e) == l <= Len(Rec) /\ Ev.e = e
TaskStep == l <= Len(Rec) /\ Ev.e \in {"Call", "End", "Exit"}
Tr == Ev.trig
Frames(t) == SelectSeq(LogSent, LAMBDA f : f.t = t)
ReqBlocks == {Frames("Request")[i].b : i \in 1..Len(Frames("Request"))}
\* the block that this step accepted (0 = none): an outstanding block of the piece being assembled
Accepted == IF Tr.t = "Piece" /\ h[K].hs /\ h[K].rx.p # None /\ Tr.p = h[K].rx.p /\ Tr.b \in h[K].rx.req
               /\ ~(Ev.called /\ Ev.e # "Call")      \* (the second half of a call does not consume the block again)
            THEN Tr.b ELSE 0
AllBlocks(p) == 1..NBlocks[p]
\* a step that executes a reply assigning a piece starts that piece afresh
Starts == h[K].wait /\ h[K].reply.t \in {"SendRequest", "SendInterestedAndRequest"} /\ Ev.e \in {"End", "Exit"}

\* --- C01: what is on disk is good, and contains everything the tasks claimed to have stored ---------------
ObsDisk == [][At("Disk") => (Ev.bad = 0 /\ stored \subseteq ToSet(Ev.good))]_ovars

\* --- C08: a handshake for another torrent / from another identity ends the connection, nothing is sent ------
ObsBadHandshake == [][(TaskStep /\ Tr.t = "Handshake" /\ ~Tr.good) => (Ev.e = "Exit" /\ LogSent = <<>>)]_ovars

\* --- C09: piece data only as the answer to a well-formed request, for the piece that request names ---------
ObsServe == [][(TaskStep /\ Frames("Piece") # <<>>) =>
                 /\ Tr.t = "Request" /\ Tr.ok
                 /\ \A i \in 1..Len(Frames("Piece")) : Frames("Piece")[i].p = Tr.p
                 /\ Len(Frames("Piece")) = 1]_ovars

\* --- C10: requests tile the assigned piece exactly once -----------------------------------------------------
\* bookkeeping of the task is consistent: outstanding and unrequested blocks are disjoint blocks of the piece
ObsRxShape == \A k \in Peers : h[k].alive /\ h[k].rx.p # None =>
                 /\ h[k].rx.p \in Pieces
                 /\ h[k].rx.req \cap td[k] = {}
                 /\ (h[k].rx.req \cup td[k]) \subseteq AllBlocks(h[k].rx.p)
ObsTile == [][(TaskStep /\ Ev.e # "Exit") =>
   LET p == Ev.hs.rxp
       R == ReqBlocks
       rq == Frames("Request") IN
   /\ rq # <<>> => /\ p # None /\ \A i \in 1..Len(rq) : rq[i].p = p
                   /\ Cardinality(R) = Len(rq)                              \* no block twice in one step
   /\ IF Starts /\ p # None /\ rq # <<>>
      THEN \* a fresh assignment: everything requested is outstanding, the rest still to come
           /\ ToSet(Ev.hs.req) = R /\ TodoLog = AllBlocks(p) \ R
      ELSE IF Accepted # 0 /\ p = h[K].rx.p
      THEN \* an accepted block: it is no longer outstanding; new requests come from the unrequested blocks,
           \* and while such blocks remain a further request follows
           /\ R \subseteq td[K]
           /\ ToSet(Ev.hs.req) = (h[K].rx.req \ {Accepted}) \cup R
           /\ TodoLog = td[K] \ R
           /\ td[K] # {} => R # {}
      ELSE \* nothing else sends requests
           rq = <<>> \/ Starts]_ovars
\* a piece being assembled is given up only when it completes, when somebody else completed it (cancel), when
\* the manager answers the peer's Unchoke with other work, or with the connection; a fresh assignment is the
\* piece the manager named
ObsNoAbandon == [][(TaskStep /\ Ev.e # "Exit") =>
   /\ (h[K].rx.p # None /\ Ev.hs.rxp # h[K].rx.p) =>
         \/ (Ev.e = "Call" /\ Ev.cmd = "PieceDone")
         \/ Tr.t = "BroadHave"
         \/ Tr.t = "Unchoke"
   /\ (Starts /\ Frames("Request") # <<>>) => Ev.hs.rxp = h[K].reply.p]_ovars

\* the piece is completed exactly when the last outstanding block arrives
ObsComplete == [][TaskStep =>
   /\ (Ev.e = "Call" /\ Ev.cmd = "PieceDone") => (Accepted # 0 /\ h[K].rx.req = {Accepted} /\ td[K] = {})
   /\ (Accepted # 0 /\ h[K].rx.req = {Accepted} /\ td[K] = {}) => ((Ev.e = "Call" /\ Ev.cmd = "PieceDone") \/ Ev.e = "Exit")
   \* a task that ends on an accepted block (the assembly failed its hash, or could not be stored) did so on the last one
   /\ (Ev.e = "Exit" /\ Accepted # 0) => (h[K].rx.req = {Accepted} /\ td[K] = {})]_ovars

\* --- C11 ----------------------------------------------------------------------------------------------------
\* the bitfield says exactly what was owned when the manager answered Init
ObsBitfield == [][(TaskStep /\ Frames("Bitfield") # <<>>) =>
                    \A i \in 1..Len(Frames("Bitfield")) : Frames("Bitfield")[i].s = bfs[K]]_ovars
\* announcements follow the completions broadcast to the connection, in order; at rest nothing is missing
\* (at rest = at a disk scan, for a task that is not in the middle of a call to the manager)
ObsAnnPrefix == \A k \in Peers : h[k].alive => IsPrefix(ann[k] \o h[k].buf, due[k])
ObsAnnAtRest == [][At("Disk") => \A k \in Conn : h[k].alive /\ ~InFlight(k) => ann[k] \o h[k].buf = due[k]]_ovars

\* --- C12: a reservation is backed by a peer that - as the connection task knows from the wire - does not choke us
\* (the manager's own belief is what ReservedBacked reads; the two may only differ while something is in flight)
ObsBackedOnWire == \A p \in Pieces : st[p].k = "R" =>
                      \E k \in Conn : mp[k].pidx = p /\ (InFlight(k) \/ ~h[k].ch)

\* --- C13: a piece handed out is a rarest candidate in the state it was picked in ----------------------------
ObsPick == [][(At("Mgr") /\ Ev.reply \in {"SendRequest", "SendInterestedAndRequest"}) =>
               LET c == Assigned
                   s0 == Release(LogSt, c)         \* the state the choice was made in: before c was reserved for K
               IN  c \in Pieces /\ c \in PickSetIn(s0, LogMp, K)]_ovars
\* nothing is picked only if nothing can be: a peer that just unchoked us / finished / was cancelled and does
\* not choke us is left without work only when it offers no candidate
ObsPickNone == [][(At("Mgr") /\ Ev.cmd \in {"Unchoke", "PieceDone", "PieceCancel"} /\ K \in DOMAIN LogMp
                    /\ ~LogMp[K].ch /\ LogMp[K].pidx = None /\ ~panic) =>
                  CandidatesIn(LogSt, LogMp, K) = {}]_ovars

\* --- C14: at rest every peer's view of its choke state is the manager's --------------------------------------
ObsViewAtRest == [][At("Disk") => \A k \in Conn : h[k].alive /\ ~InFlight(k) /\ wire[k].hs => ((wire[k].ch = "C") <=> mp[k].amCh)]_ovars

\* --- C20 ----------------------------------------------------------------------------------------------------
\* the keep-alive timer: a keep-alive goes out and the silence counter grows; the task ends at the limit at the
\* latest ("within three intervals") and never while the counter is 0 (a message arrived in the last interval);
\* nothing else ends a task for inactivity; keep-alives from the peer do not count as life, any other frame does
ObsKeepAlive == [][TaskStep =>
   /\ Tr.t = "TickKA" => \/ h[K].ka >= 1 /\ Ev.e = "Exit"          \* at least one whole interval of silence; may come before the limit
                         \/ h[K].ka < KALimit /\ Ev.e = "End" /\ Frames("KeepAlive") # <<>> /\ Ev.hs.ka = h[K].ka + 1
   /\ (Tr.t = "KeepAlive" /\ Ev.e = "End") => Ev.hs.ka = h[K].ka
   /\ (Tr.t \in {"Choke", "Unchoke", "Interested", "NotInterested", "Have", "Bitfield", "Request", "Piece", "Cancel"}
         /\ Ev.e \in {"Call", "End"} /\ h[K].hs) => Ev.hs.ka = 0
   /\ (Tr.t = "Handshake" /\ Tr.good /\ Ev.e \in {"Call", "End"}) => Ev.hs.ka = 0]_ovars
=============================================================================
