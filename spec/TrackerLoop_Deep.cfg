SPECIFICATION Spec
CONSTANTS
  ChanCap = 3
  MaxFail = 8
  JoinAfter = "resp"
PROPERTIES EventuallyContacted PeersServed NeverStuck
