---------------------------- MODULE MetainfoDoc ----------------------------
(* C05 / C17: metainfo documents assembled from per-field variant menus, with their exact       *)
(* bytes, the span of the top-level info value, and the reading the properties demand of an     *)
(* accepted document ("what the top-level dictionary says").  Every initial state is one        *)
(* document; the reading is computed by TLC and replayed against Metainfo::from_bencode.        *)
EXTENDS DocModel

CONSTANTS Groups,       \* sequence of slot names: order of the entries in the document
          Variants,     \* slot name -> sequence of variants; variant 1 is the default (valid) one
                        \*   variant = [top |-> items spliced into the top dictionary,
                        \*              info |-> items spliced into the info dictionary,
                        \*              tail |-> values appended after the dictionary]
          MaxMut,       \* at most this many slots deviate from their default
          KAnnounce, KInfo, KName, KPieceLength, KPieces, KLength, KFiles, KPath  \* key strings

VARIABLES choice,  \* slot name -> index of the chosen variant
          doc      \* expectations for the replay

Slots == {Groups[i] : i \in 1..Len(Groups)}

\* (operator arguments are evaluated once by TLC, definitions on every use: intermediate results are
\*  therefore passed down as arguments)
InfoItemsOf(c) == FoldLeft(LAMBDA a, g : a \o Variants[g][c[g]].info, <<>>, Groups)
\* the info entry sits where the slot named "info" is; other slots contribute their top items
TopItemsOf(c, infoItems) ==
  FoldLeft(LAMBDA a, g : a \o (IF g = "info" /\ Variants[g][c[g]].keep
                                THEN <<StrV(KInfo), ConV("d", infoItems)>>
                                ELSE Variants[g][c[g]].top), <<>>, Groups)
TrailingOf(c) == FoldLeft(LAMBDA a, g : a \o Variants[g][c[g]].tail, <<>>, Groups)

\* a file entry of the files list that is well-formed (others are skipped)
GoodEntry(e) == /\ e.t = "d"
                /\ NonNegInt(Get(e.v, KLength))
                /\ IsStr(Get(e.v, KPath))

\* --- what the document says -------------------------------------------------------------
ReadingOf(top, infoVal, infoD, announce, name, plen, pieces, length, files) ==
  LET fileList == IF files.t = "l" THEN SelectSeq(files.v, GoodEntry) ELSE <<>>
      single == NonNegInt(length)
      multi == files.t = "l"
      \* defined when every field an accepted metainfo must have is present and well-typed
      defined == /\ UniqueKeys(top) /\ UniqueKeys(infoD)
                 /\ IsStr(announce) /\ infoVal.t = "d"
                 /\ IsStr(name) /\ NonNegInt(plen) /\ IsStr(pieces) /\ Len(pieces.v) % 20 = 0
                 /\ (single \/ multi) /\ ~(single /\ multi)
  IN [defined |-> defined,
      announce |-> IF IsStr(announce) THEN announce.v ELSE <<>>,
      name |-> IF IsStr(name) THEN name.v ELSE <<>>,
      pl |-> IF IsInt(plen) THEN plen.d ELSE <<>>,
      plneg |-> IsInt(plen) /\ plen.neg,
      npieces |-> IF IsStr(pieces) THEN Len(pieces.v) \div 20 ELSE 0,
      pieces |-> IF IsStr(pieces) THEN pieces.v ELSE <<>>,
      single |-> single,
      length |-> IF single THEN length.d ELSE <<>>,
      files |-> [i \in 1..Len(fileList) |->
                   [len |-> Get(fileList[i].v, KLength).d, path |-> Get(fileList[i].v, KPath).v]]]

WithInfo(top, tail, infoVal, infoD) ==
  [bytes |-> Raw(ConV("d", top)) \o RawAll(tail),
   \* span of the info value inside bytes: <<start (0-based), length>>
   span |-> IF Has(top, KInfo) THEN <<1 + OffsetOf(top, KInfo), Len(Raw(infoVal))>> ELSE <<0, 0>>,
   reading |-> ReadingOf(top, infoVal, infoD, Get(top, KAnnounce), Get(infoD, KName), Get(infoD, KPieceLength),
                         Get(infoD, KPieces), Get(infoD, KLength), Get(infoD, KFiles)),
   stage |-> "done"]
WithTop(top, tail, infoVal) == WithInfo(top, tail, infoVal, IF infoVal.t = "d" THEN infoVal.v ELSE <<>>)
DocOf(c) == LET build(top, tail) == WithTop(top, tail, Get(top, KInfo))
            IN  build(TopItemsOf(c, InfoItemsOf(c)), TrailingOf(c))

MaxVar == CHOOSE n \in 1..64 : \A g \in Slots : Len(Variants[g]) <= n
\* two steps (pick the deviating slots, then their variants) so that TLC's workers share the work
Init == /\ choice = [g \in Slots |-> 1]
        /\ doc = [stage |-> "pick", mset |-> {}]
PickSlots == /\ doc.stage = "pick"
             /\ \E M \in {S \in SUBSET Slots : Cardinality(S) <= MaxMut} : doc' = [stage |-> "fill", mset |-> M]
             /\ UNCHANGED choice
Fill == /\ doc.stage = "fill"
        /\ \E m \in [doc.mset -> 2..MaxVar] :
              /\ \A g \in doc.mset : m[g] <= Len(Variants[g])
              /\ LET c == [g \in Slots |-> IF g \in doc.mset THEN m[g] ELSE 1]
                 IN  choice' = c /\ doc' = DocOf(c)
Next == PickSlots \/ Fill
Spec == Init /\ [][Next]_<<choice, doc>>

\* design-level sanity: the recorded span really is the serialisation of the info value
SpanCheck(top) == Has(top, KInfo) =>
                    SubSeq(doc.bytes, doc.span[1] + 1, doc.span[1] + doc.span[2]) = Raw(Get(top, KInfo))
SpanInv == doc.stage = "done" => SpanCheck(TopItemsOf(choice, InfoItemsOf(choice)))
\* the all-default document is defined
DefaultDefined == (doc.stage = "done" /\ \A g \in Slots : choice[g] = 1) => doc.reading.defined
=============================================================================
