---------------------------- MODULE TrackerLoop ----------------------------
(* C19 (fault tolerance): the manager, the tracker task, the bounded command channel between   *)
(* them and the join of the tracker task.  The environment decides the outcome of every        *)
(* announce (failure of any kind, or a good reply); peers keep sending commands to the manager. *)
(* JoinAfter says when the manager joins the tracker task: "resp" = only after the good reply   *)
(* (the code after the repair), "every" = after every tracker command (the code as found, kept  *)
(* to show what TLC reports for it).                                                            *)
EXTENDS Naturals, Sequences, TLC

CONSTANTS ChanCap,      \* capacity of the tracker -> manager channel (64 in rdest)
          MaxFail,      \* at most this many failed announces before the good one
          JoinAfter     \* "resp" | "every"

VARIABLES tpc,        \* tracker task: "announce" | "send" | "sleep" | "done"
          pending,    \* the command the tracker is trying to send ("Fail" | "Resp")
          chan,       \* tracker -> manager channel
          fails,      \* failed announces so far
          mpc,        \* manager: "loop" | "joining"
          contacted,  \* the listed peers were contacted
          peerq,      \* a peer command is waiting for the manager
          served      \* number of peer commands handled (capped, for the view)

vars == <<tpc, pending, chan, fails, mpc, contacted, peerq, served>>

Init == /\ tpc = "announce" /\ pending = "none" /\ chan = <<>> /\ fails = 0
        /\ mpc = "loop" /\ contacted = FALSE /\ peerq = FALSE /\ served = 0

\* --- tracker task ---
Announce(ok) == /\ tpc = "announce"
                /\ (~ok => fails < MaxFail)
                /\ pending' = IF ok THEN "Resp" ELSE "Fail"
                /\ fails' = IF ok THEN fails ELSE fails + 1
                /\ tpc' = "send"
                /\ UNCHANGED <<chan, mpc, contacted, peerq, served>>
Send == /\ tpc = "send" /\ Len(chan) < ChanCap              \* blocks while the channel is full
        /\ chan' = Append(chan, pending)
        /\ tpc' = IF pending = "Resp" THEN "done" ELSE "sleep"
        /\ UNCHANGED <<pending, fails, mpc, contacted, peerq, served>>
Wake == /\ tpc = "sleep" /\ tpc' = "announce"
        /\ UNCHANGED <<pending, chan, fails, mpc, contacted, peerq, served>>

\* --- manager ---
HandleTracker == /\ mpc = "loop" /\ chan # <<>>
                 /\ chan' = Tail(chan)
                 /\ contacted' = (contacted \/ Head(chan) = "Resp")
                 /\ mpc' = IF JoinAfter = "every" \/ Head(chan) = "Resp" THEN "joining" ELSE "loop"
                 /\ UNCHANGED <<tpc, pending, fails, peerq, served>>
Joined == /\ mpc = "joining" /\ tpc = "done"                 \* JoinHandle.await returns when the task ended
          /\ mpc' = "loop"
          /\ UNCHANGED <<tpc, pending, chan, fails, contacted, peerq, served>>
PeerSends == /\ ~peerq /\ peerq' = TRUE
             /\ UNCHANGED <<tpc, pending, chan, fails, mpc, contacted, served>>
HandlePeer == /\ mpc = "loop" /\ peerq
              /\ peerq' = FALSE /\ served' = IF served < 2 THEN served + 1 ELSE served
              /\ UNCHANGED <<tpc, pending, chan, fails, mpc, contacted>>

Next == (\E ok \in BOOLEAN : Announce(ok)) \/ Send \/ Wake \/ HandleTracker \/ Joined \/ PeerSends \/ HandlePeer
Fair == /\ WF_vars(Send) /\ WF_vars(Wake) /\ WF_vars(HandleTracker) /\ WF_vars(Joined) /\ WF_vars(HandlePeer)
        /\ WF_vars(\E ok \in BOOLEAN : Announce(ok))
        /\ SF_vars(Announce(TRUE))                             \* some announce eventually succeeds
Spec == Init /\ [][Next]_vars /\ Fair

\* any run of failures followed by a good announce ends with the listed peers contacted
EventuallyContacted == <>contacted
\* the session keeps serving its connections meanwhile
PeersServed == [](peerq => <>~peerq)
\* the manager is never blocked on the tracker while announces are still failing
NeverStuck == [](mpc = "joining" => tpc \in {"done"} \/ pending = "Resp" \/ contacted)
=============================================================================
