--------------------------- MODULE WireCases ---------------------------
(* C07: generator of peer-wire messages with boundary field values together with the bytes     *)
(* BEP3 prescribes (Wire!Header; the payload of Piece/Bitfield messages is described           *)
(* symbolically as <<length, pattern>> and expanded by the harness), and of bit vectors with   *)
(* their packed bytes.  Every initial state is one case; there are no transitions.             *)
EXTENDS Wire

CONSTANTS U32s,        \* boundary quads for u32 fields
          PayLens,     \* payload lengths for Piece
          BitLens,     \* payload lengths for Bitfield messages
          Hashes,      \* 20-byte sequences for info hash / peer id
          BitCounts    \* piece counts for which all (small) or walking (large) bit vectors are generated

VARIABLES case   \* [m, hdr, paylen] or [bits, bytes]

Msgs ==
  {[k |-> k] : k \in {"KeepAlive", "Choke", "Unchoke", "Interested", "NotInterested"}}
  \cup {[k |-> "Have", idx |-> i] : i \in U32s}
  \cup {[k |-> k, idx |-> i, begin |-> b, len |-> l] : k \in {"Request", "Cancel"}, i \in U32s, b \in U32s, l \in U32s}
  \cup {[k |-> "Handshake", ih |-> h, id |-> p] : h \in Hashes, p \in Hashes}

\* messages with a payload: the payload itself is symbolic
PMsgs == {[k |-> "Piece", idx |-> i, begin |-> b, n |-> n] : i \in U32s, b \in U32s, n \in PayLens}
         \cup {[k |-> "Bitfield", n |-> n] : n \in BitLens}

AllBits(n) == [1..n -> BOOLEAN]
Walking(n) == {[p \in 1..n |-> p = q] : q \in 1..n} \cup {[p \in 1..n |-> p # q] : q \in 1..n}
              \cup {[p \in 1..n |-> TRUE], [p \in 1..n |-> FALSE], [p \in 1..n |-> p % 3 = 0]}
BitVectors == UNION {IF n <= 10 THEN AllBits(n) ELSE Walking(n) : n \in BitCounts}

Init == \/ \E m \in Msgs : case = [t |-> "msg", m |-> m, hdr |-> Header(m, 0), n |-> 0]
        \/ \E m \in PMsgs : case = [t |-> "msg", m |-> m, hdr |-> Header(m, m.n), n |-> m.n]
        \/ \E v \in BitVectors : case = [t |-> "bits", bits |-> v, bytes |-> BitsToBytes(v)]
Next == UNCHANGED case
Spec == Init /\ [][Next]_case

\* design-level statements of C07 on the model
RoundTripInv == case.t = "msg" /\ "n" \notin DOMAIN case.m => RoundTrip(case.m)
BitsInv == case.t = "bits" =>
             /\ Len(case.bytes) = NBytes(Len(case.bits))
             /\ BytesToBits(case.bytes, Len(case.bits)) = case.bits
             /\ \A i \in 0..(Len(case.bits) - 1) :
                   case.bits[i + 1] <=> BitSet(case.bytes[i \div 8 + 1], i % 8)
=============================================================================
