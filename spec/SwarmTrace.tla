----------------------------- MODULE SwarmTrace -----------------------------
(* Trace validation of full-stack runs (harness/src/bin/simnet.rs) against Swarm.tla.           *)
(* The NDJSON file named by TRACE holds the events recorded from the real Session,              *)
(* PeerHandlers and Connections (re-encoded by lib/swarm_trace.py: peers p1.., pieces 1..,      *)
(* blocks 1..; nothing is inferred).  Every line is consumed by exactly one action of Swarm.tla *)
(* whose parameters are bound to the logged values, and the logged post-state (whole manager    *)
(* state after every manager step, connection-task state and written frames after every task    *)
(* step) must be the state the action produces.  All property invariants of Swarm.tla are       *)
(* evaluated by TLC in every state of the observed execution.  Acceptance: the POSTCONDITION    *)
(* reports the last consumed line.                                                               *)
EXTENDS Swarm, Json, IOUtils, TLCExt, Functions

Rec == ndJsonDeserialize(IOEnv.TRACE)

VARIABLES l          \* next line to consume
tvars == <<vars, l>>

Ev == Rec[l]
K == Ev.k

\* ---- projections of the specification state in the shape the events are logged ----
HViewOf(hh, k) == [ch |-> hh[k].ch, ka |-> hh[k].ka, hs |-> hh[k].hs,
                   rxp |-> hh[k].rx.p, req |-> hh[k].rx.req, nxt |-> IF hh[k].rx.p = None THEN 0 ELSE hh[k].rx.nxt,
                   tx |-> hh[k].tx, buf |-> hh[k].buf]
\* logged sets arrive as sequences
ToSet(s) == {s[i] : i \in 1..Len(s)}
LogH == [ch |-> Ev.hs.ch, ka |-> Ev.hs.ka, hs |-> Ev.hs.hs, rxp |-> Ev.hs.rxp, req |-> ToSet(Ev.hs.req),
         nxt |-> Ev.hs.nxt, tx |-> Ev.hs.tx, buf |-> Ev.hs.buf]
MgrPeer(m) == [pcs |-> ToSet(m.pcs), pidx |-> m.pidx, amInt |-> m.amInt, amCh |-> m.amCh, int |-> m.int,
               ch |-> m.ch, opt |-> m.opt, dl |-> m.dl, ul |-> m.ul, rated |-> m.rated]
LogSt == [p \in Pieces |-> [k |-> Ev.st[p].k, n |-> Ev.st[p].n]]
LogConn == ToSet(Ev.conn)
LogMp == [k \in LogConn |-> MgrPeer(Ev.mp[k])]
\* frames: Bitfield sets arrive as sequences
Fr(f) == IF f.t = "Bitfield" THEN [t |-> "Bitfield", s |-> ToSet(f.s)] ELSE f
LogSent == [i \in 1..Len(Ev.sent) |-> Fr(Ev.sent[i])]

LogMg == [r |-> Ev.mg, cands |-> Ev.cands, ext |-> Ev.ext]
MgrMatches == st' = LogSt /\ DOMAIN mp' = LogConn /\ mp' = LogMp /\ mg' = LogMg
HMatches(k) == HViewOf(h', k) = LogH        \* (only h is primed: k comes from the current line)
SentMatches(k) == IF LogSent = <<>> THEN sent'.f = <<>> ELSE sent' = [k |-> k, f |-> LogSent]

TInit == Init /\ l = 1 /\ TLCSet(1, 0)

\* ---- one action per event kind -------------------------------------------------------------
\* a new scenario: everything starts afresh
TReset == /\ Ev.e = "Reset"
          /\ st' = [p \in Pieces |-> [k |-> "M", n |-> 0]]
          /\ mp' = [k \in {} |-> NewPeer]
          /\ mg' = [r |-> 0, cands |-> 0, ext |-> FALSE] /\ mq' = <<>>
          /\ h' = [k \in Peers |-> DeadH]
          /\ bq' = [k \in Peers |-> <<>>]
          /\ stored' = {}
          /\ sent' = [k |-> NoConn, f |-> <<>>]
          /\ wire' = [k \in Peers |-> [hs |-> FALSE, ch |-> "C"]]
          /\ panic' = FALSE
          /\ due' = [k \in Peers |-> <<>>]
          /\ ann' = [k \in Peers |-> <<>>]

WithDue(A) == A /\ due' = DueNext

\* Accept / Spawn in the manager
TConnect == /\ Ev.e = "Connect"
            /\ WithDue(Connect(K, Ev.inc))
            /\ MgrMatches

\* a second connection from a connected address is dropped: nothing changes
TConnectDup == /\ Ev.e = "ConnectDup"
               /\ WithDue(ConnectDup(K))
               /\ MgrMatches

\* the listener turned a connection away (too many peers that have nothing we want)
TConnectRefused == /\ Ev.e = "ConnectRefused"
                   /\ WithDue(ConnectRefused)
                   /\ MgrMatches

\* first half of a task step that calls the manager
TCall ==
  /\ Ev.e = "Call"
  /\ LET t == Ev.trig IN
     WithDue(
     CASE Ev.cmd = "Init" /\ t.t = "Start" -> HStart(K)
       [] Ev.cmd = "Init" /\ t.t = "Handshake" -> t.good /\ HHandshake(K)
       [] Ev.cmd = "Choke" -> t.t = "Choke" /\ HChoke(K)
       [] Ev.cmd = "Unchoke" -> (t.t = "Unchoke" /\ h[K].ch /\ HUnchoke(K)) \/ (t.t = "BroadReleased" /\ HBroadReleased(K) /\ h'[K].wait)
       [] Ev.cmd = "Interested" -> t.t = "Interested" /\ HInterested(K)
       [] Ev.cmd = "NotInterested" -> t.t = "NotInterested" /\ HNotInterested(K)
       [] Ev.cmd = "Have" -> t.t = "Have" /\ HHave(K, t.p)
       [] Ev.cmd = "Bitfield" -> t.t = "Bitfield" /\ HBitfield(K, ToSet(t.s))
       [] Ev.cmd = "Request" -> t.t = "Request" /\ h[K].tx # t.p /\ HRequest(K, t.p, t.ok)
       [] Ev.cmd = "PieceDone" -> t.t = "Piece" /\ t.good /\ HPiece(K, t.p, t.b, TRUE) /\ h'[K].wait
       [] Ev.cmd = "PieceCancel" -> t.t = "BroadHave" /\ HBroadHave(K) /\ h'[K].wait
       [] Ev.cmd = "SyncStats" -> t.t = "TickStats" /\ HTickStats(K, Ev.dl, Ev.ul)
       [] OTHER -> FALSE)
  /\ HMatches(K) /\ SentMatches(K)

\* the manager handles one command
TMgr ==
  /\ Ev.e = "Mgr"
  /\ LET c == Ev.chosen IN
     WithDue(
     CASE Ev.cmd = "Init" -> MInit(K)
       [] Ev.cmd = "Choke" -> MChoke(K)
       [] Ev.cmd = "Unchoke" -> MUnchoke(K, c)
       [] Ev.cmd = "Interested" -> MInterested(K)
       [] Ev.cmd = "NotInterested" -> MNotInterested(K, c)
       [] Ev.cmd = "Have" -> MHave(K)
       [] Ev.cmd = "Bitfield" -> MBitfield(K, c)
       [] Ev.cmd = "Request" -> MRequest(K)
       [] Ev.cmd = "PieceDone" -> MPieceDone(K, c)
       [] Ev.cmd = "PieceCancel" -> MPieceCancel(K, c)
       [] Ev.cmd = "SyncStats" -> MSyncStats(K)
       [] Ev.cmd = "Kill" -> MKill(K)
       [] OTHER -> FALSE)
  /\ MgrMatches
  /\ (Ev.reply # "" /\ K \in Peers /\ h'[K].alive) => h'[K].reply.t = Ev.reply

\* the end of a task step: the second half after a reply, or a whole step that needed no manager
Checked(A) == A /\ HMatches(K) /\ SentMatches(K)
Stutter == UNCHANGED vars
TEnd ==
  /\ Ev.e = "End"
  /\ LET t == Ev.trig IN
     WithDue(
     IF Ev.called
     THEN IF h[K].wait /\ h[K].reply.t # "none"
          THEN Checked(\E n \in 0..3 : HReply(K, n) /\ h'[K].alive)
          ELSE Stutter /\ ~h[K].wait /\ Ev.sent = <<>>           \* fire-and-forget command: nothing left to do
     ELSE CASE t.t = "Start" -> Stutter /\ Ev.sent = <<>>
            [] t.t = "TickStats" -> Stutter /\ Ev.sent = <<>>       \* the first stats ticks report nothing
            [] t.t = "Handshake" -> Checked(t.good /\ HHandshake(K) /\ ~h'[K].wait)
            [] t.t = "KeepAlive" -> Checked(HKeepAlive(K))
            [] t.t = "Cancel" -> Checked(HCancel(K))
            [] t.t = "Unchoke" -> Checked(~h[K].ch /\ HUnchoke(K))
            [] t.t = "Piece" -> Checked(HPiece(K, t.p, t.b, t.good) /\ ~h'[K].wait /\ h'[K].alive)
            [] t.t = "Request" -> Checked(h[K].tx = t.p /\ t.ok /\ HRequest(K, t.p, TRUE))
            [] t.t = "BroadHave" -> Checked(HBroadHave(K) /\ ~h'[K].wait)
            [] t.t = "BroadReleased" -> Checked(HBroadReleased(K) /\ ~h'[K].wait)
            [] t.t = "BroadState" -> Checked(HBroadState(K) /\ Head(bq[K]).v = t.v)
            [] t.t = "TickKA" -> Checked(HTickKA(K) /\ h'[K].alive)
            [] OTHER -> FALSE)

\* the task ends
TExit ==
  /\ Ev.e = "Exit"
  /\ LET t == Ev.trig IN
     WithDue(
     IF Ev.called /\ h[K].wait /\ h[K].reply.t # "none"
     THEN \/ (\E n \in 0..3 : HReply(K, n)) /\ ~h'[K].alive        \* PrepareKill, failed load, invalid request
          \/ HReplyLost(K)                                            \* the connection broke meanwhile
     \* why a task may end is decided by its trigger and state alone (no error text is interpreted):
     \* inactivity only at the limit, a block only when it completes a corrupt assembly, a request for the
     \* loaded piece only if it is out of range
     ELSE IF t.t = "TickKA" THEN HTickKA(K) /\ ~h'[K].alive
     ELSE IF t.t = "Piece" /\ h[K].hs /\ t.p \in Pieces THEN HPiece(K, t.p, t.b, t.good) /\ ~h'[K].alive
     ELSE IF t.t = "Request" /\ h[K].hs /\ h[K].tx = t.p THEN ~t.ok /\ HRequest(K, t.p, FALSE)
     ELSE IF h[K].trig.t = "Start" THEN HConnFail(K)
     ELSE HReject(K))                                                 \* EOF, undecodable input, bad handshake, ...

\* rotation timer
TRotate == /\ Ev.e = "Rotate"
           /\ WithDue(MRotate(Ev.order, ToSet(Ev.newopt)))
           /\ MgrMatches

\* tracker reply / follow-up of a kill: the manager's candidate list and the extractor flag
TTracker == /\ Ev.e = "TrackerPeers"
            /\ WithDue(MTrackerPeers(Ev.n))
            /\ MgrMatches
TSettle == /\ Ev.e = "Settle"
           /\ WithDue(IF Ev.kill THEN (MAfterKill /\ mg'.cands = Ev.cands) \/ (mg.cands > Ev.cands /\ ~AllHave /\ MDropCands(mg.cands - Ev.cands))
                       ELSE MDropCands(mg.cands - Ev.cands))
           /\ MgrMatches

\* what is on disk: exactly the stored pieces, all of them good
TDisk == /\ Ev.e = "Disk"
         /\ ToSet(Ev.good) = stored
         /\ Ev.bad = 0
         /\ UNCHANGED vars

\* a task or the manager panicked
TPanic == /\ Ev.e = "Panic"
          /\ panic' = TRUE
          /\ UNCHANGED <<st, mp, mg, mq, h, bq, stored, sent, wire, due, ann>>

TNext == /\ l <= Len(Rec)
         /\ l' = l + 1
         /\ (TReset \/ TConnect \/ TConnectDup \/ TConnectRefused \/ TCall \/ TMgr \/ TEnd \/ TExit \/ TRotate \/ TTracker \/ TSettle \/ TDisk \/ TPanic)
         /\ TLCSet(1, l)
TSpec == TInit /\ [][TNext]_tvars

\* owned pieces stay owned - within one scenario
THaveStable == [][(l <= Len(Rec) /\ Rec[l].e = "Reset") \/ \A p \in Pieces : st[p].k = "H" => st'[p].k = "H"]_tvars

Report == PrintT(<<"TRACE_MATCHED", TLCGet(1), Len(Rec)>>)
=============================================================================
