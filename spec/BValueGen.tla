--------------------------- MODULE BValueGen ---------------------------
(* C15: generator of bencode value trees with their canonical encoding.                    *)
(* A behaviour builds a sequence of values token by token (leaf, open list, open dict,      *)
(* close); every state whose containers are all closed is one test case: the values and     *)
(* the canonical encoding Enc the property demands of BEncoder (taken from Bencode.tla).    *)
EXTENDS Bencode

CONSTANTS IntLeaves,   \* set of [neg, d] integer leaves (digit sequences: i64 min/max included)
          StrLeaves,   \* set of byte strings (sequences of symbols)
          MaxTokens,
          MaxDepth,
          MaxTop       \* bound on the number of top-level values

VARIABLES gstack,  \* like Bencode!stack: open containers with their items
          ntok,
          enc      \* canonical encoding of the finished top-level values (<<>> while incomplete)

gvars == <<gstack, ntok, enc>>

GTop == gstack[Len(gstack)]
GKeyTurn == GTop.k = "d" /\ Len(GTop.items) % 2 = 0
GKeys == {GTop.items[2*i-1].v : i \in 1..(Len(GTop.items) \div 2)}

GInit == /\ Init
         /\ gstack = << [k |-> "top", items |-> <<>>] >>
         /\ ntok = 0
         /\ enc = <<>>

Finish(st) == IF Len(st) = 1 THEN EncAll(st[1].items) ELSE <<>>

Put(v) == LET st == [gstack EXCEPT ![Len(gstack)].items = Append(@, v)]
          IN  gstack' = st /\ enc' = Finish(st)

AddInt == /\ ~GKeyTurn
          /\ \E x \in IntLeaves : Put(IntV(x.neg, x.d))

AddStr == \E s \in StrLeaves :
             /\ (GKeyTurn => s \notin GKeys)       \* a dictionary value has unique keys
             /\ Put(StrV(s))

Open == /\ ~GKeyTurn
        /\ Len(gstack) <= MaxDepth
        /\ \E k \in {"l", "d"} :
              /\ gstack' = Append(gstack, [k |-> k, items |-> <<>>])
              /\ enc' = <<>>

Close == /\ Len(gstack) > 1
         /\ (GTop.k = "d" => Len(GTop.items) % 2 = 0)
         /\ LET st == [Front(gstack) EXCEPT
                          ![Len(gstack) - 1].items = Append(@, ConV(GTop.k, GTop.items))]
            IN  gstack' = st /\ enc' = Finish(st)

Room == Len(gstack) > 1 \/ Len(gstack[1].items) < MaxTop

GNext == /\ UNCHANGED vars
         /\ ntok < MaxTokens
         /\ ntok' = ntok + 1
         /\ ((Room /\ (AddInt \/ AddStr \/ Open)) \/ Close)

GSpec == GInit /\ [][GNext]_<<vars, gvars>>

Complete == Len(gstack) = 1 /\ Len(gstack[1].items) > 0

\* Design-level sanity of the encoder model: every finished value contributes at least two symbols.
EncNonEmpty == Complete => Len(enc) >= 2 * Len(gstack[1].items)
=============================================================================
