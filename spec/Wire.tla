------------------------------- MODULE Wire -------------------------------
(* Byte-level reference of the BEP3 peer wire protocol: Encode (message -> bytes) for the     *)
(* eleven message kinds and Parse (decision function of a stream decoder on a receive         *)
(* buffer).  Used by WireCases (C07), FrameStream (C06) and the connection layer of Swarm.    *)
(*                                                                                             *)
(* A byte is a number 0..255; a u32 field is kept as its four big-endian bytes (a "quad"), so *)
(* the whole u32 range is representable although TLC integers are 32-bit signed.              *)
EXTENDS Naturals, Sequences, FiniteSets, TLC, SequencesExt

CONSTANT MaxFrame         \* largest accepted length prefix (65536 in rdest)

Pstr == <<66,105,116,84,111,114,114,101,110,116,32,112,114,111,116,111,99,111,108>>
        \* "BitTorrent protocol"
Reserved == <<0,0,0,0,0,0,0,0>>
HandshakeLen == 68
PstrLen == 19

MsgId == [Choke |-> 0, Unchoke |-> 1, Interested |-> 2, NotInterested |-> 3, Have |-> 4,
          Bitfield |-> 5, Request |-> 6, Piece |-> 7, Cancel |-> 8]
KnownIds == {0, 1, 2, 3, 4, 5, 6, 7, 8}
FixedLen == [i \in KnownIds \ {5, 7} |->
               IF i \in {0, 1, 2, 3} THEN 1 ELSE IF i = 4 THEN 5 ELSE 13]
KindOf == [i \in KnownIds |-> CHOOSE k \in DOMAIN MsgId : MsgId[k] = i]

\* quad of a number below 2^31
Q(n) == << n \div 16777216, (n \div 65536) % 256, (n \div 256) % 256, n % 256 >>
\* value of a quad known to be small
V(q) == q[1] * 16777216 + q[2] * 65536 + q[3] * 256 + q[4]
\* quad denotes a number > 65536 (= real MAX_FRAME_SIZE); independent of TLC's integer range
Above64K(q) == q[1] > 0 \/ q[2] > 1 \/ (q[2] = 1 /\ (q[3] > 0 \/ q[4] > 0))
TooLarge(q) == IF MaxFrame = 65536 THEN Above64K(q)
               ELSE q[1] > 0 \/ (q[1] = 0 /\ V(q) > MaxFrame)

-----------------------------------------------------------------------------
(* Bitfields: piece i (0-based) is bit 7 - (i mod 8) of byte i div 8 *)
Pow2 == [e \in 0..7 |-> IF e = 0 THEN 1 ELSE IF e = 1 THEN 2 ELSE IF e = 2 THEN 4 ELSE
                        IF e = 3 THEN 8 ELSE IF e = 4 THEN 16 ELSE IF e = 5 THEN 32 ELSE
                        IF e = 6 THEN 64 ELSE 128]
NBytes(n) == (n + 7) \div 8
\* bits: sequence of BOOLEAN (index 1 = piece 0)
BitsToBytes(bits) ==
  [j \in 1..NBytes(Len(bits)) |->
     LET idx == {i \in 0..7 : 8 * (j - 1) + i + 1 <= Len(bits) /\ bits[8 * (j - 1) + i + 1]}
         RECURSIVE Sum(_)
         Sum(S) == IF S = {} THEN 0 ELSE LET x == CHOOSE y \in S : TRUE IN Pow2[7 - x] + Sum(S \ {x})
     IN  Sum(idx)]
BitSet(byte, i) == (byte \div Pow2[7 - i]) % 2 = 1          \* i-th most significant bit
BytesToBits(bytes, n) == [p \in 1..n |-> BitSet(bytes[(p - 1) \div 8 + 1], (p - 1) % 8)]

-----------------------------------------------------------------------------
(* Encode.  A message is a record with field k and, depending on k: idx, begin, len (quads), *)
(* bits (bytes of a bitfield), data (payload bytes), ih / id (20 bytes each).                 *)
Header(m, paylen) ==
  CASE m.k = "KeepAlive" -> <<0, 0, 0, 0>>
    [] m.k \in {"Choke", "Unchoke", "Interested", "NotInterested"} -> <<0, 0, 0, 1, MsgId[m.k]>>
    [] m.k = "Have" -> <<0, 0, 0, 5, 4>> \o m.idx
    [] m.k = "Bitfield" -> Q(1 + paylen) \o <<5>>
    [] m.k \in {"Request", "Cancel"} -> <<0, 0, 0, 13, MsgId[m.k]>> \o m.idx \o m.begin \o m.len
    [] m.k = "Piece" -> Q(9 + paylen) \o <<7>> \o m.idx \o m.begin
    [] m.k = "Handshake" -> <<PstrLen>> \o Pstr \o Reserved \o m.ih \o m.id

Payload(m) == IF m.k = "Bitfield" THEN m.bits ELSE IF m.k = "Piece" THEN m.data ELSE <<>>
Encode(m) == Header(m, Len(Payload(m))) \o Payload(m)

-----------------------------------------------------------------------------
(* Parse: what a correct, total stream decoder does with receive buffer buf.                 *)
(*   [d |-> "need"]              nothing decodable yet, wait for more bytes                   *)
(*   [d |-> "deliver", m, n]     message m occupies the first n bytes                         *)
(*   [d |-> "skip", n]           unknown message id: discard n bytes                          *)
(*   [d |-> "fatal"]             the stream is malformed: the connection must be terminated   *)
Need == [d |-> "need"]
Fatal == [d |-> "fatal"]
Sub(b, from, n) == SubSeq(b, from, from + n - 1)

Parse(buf) ==
  IF Len(buf) < 4 THEN Need
  ELSE LET lq == Sub(buf, 1, 4) IN
  IF lq = <<0, 0, 0, 0>> THEN [d |-> "deliver", m |-> [k |-> "KeepAlive"], n |-> 4]
  ELSE IF Len(buf) < 5 THEN Need
  ELSE LET id == buf[5] IN
  IF buf[1] = PstrLen /\ id = Pstr[4] THEN        \* handshake candidate: "\x13BitT..."
       IF Len(buf) < HandshakeLen THEN Need
       ELSE IF Sub(buf, 2, PstrLen) = Pstr
            THEN [d |-> "deliver", n |-> HandshakeLen,
                  m |-> [k |-> "Handshake", ih |-> Sub(buf, 29, 20), id |-> Sub(buf, 49, 20)]]
            ELSE Fatal
  ELSE IF TooLarge(lq) THEN Fatal
  ELSE LET len == V(lq) IN
  IF id \in DOMAIN FixedLen /\ len # FixedLen[id] THEN Fatal      \* malformed length
  ELSE IF id = 7 /\ len < 9 THEN Fatal
  ELSE IF Len(buf) < 4 + len THEN Need
  ELSE IF id \notin KnownIds THEN [d |-> "skip", n |-> 4 + len]
  ELSE LET k == KindOf[id] IN
       [d |-> "deliver", n |-> 4 + len,
        m |-> CASE id \in {0, 1, 2, 3} -> [k |-> k]
                [] id = 4 -> [k |-> k, idx |-> Sub(buf, 6, 4)]
                [] id = 5 -> [k |-> k, bits |-> Sub(buf, 6, len - 1)]
                [] id \in {6, 8} -> [k |-> k, idx |-> Sub(buf, 6, 4), begin |-> Sub(buf, 10, 4),
                                     len |-> Sub(buf, 14, 4)]
                [] id = 7 -> [k |-> k, idx |-> Sub(buf, 6, 4), begin |-> Sub(buf, 10, 4),
                              data |-> Sub(buf, 14, len - 9)]]

\* Nothing that may still arrive can make the buffer decodable: an implementation may give up
\* here already although Parse still says "need" (envelope for early rejection).
Doomed(buf) == /\ Len(buf) = 4
               /\ buf[1] # PstrLen
               /\ TooLarge(Sub(buf, 1, 4))

\* Decode a whole buffer: sequence of delivered messages, bytes left over, dead flag
RECURSIVE Drain(_, _)
Drain(buf, acc) ==
  LET r == Parse(buf) IN
  CASE r.d = "need"    -> [msgs |-> acc, rest |-> buf, dead |-> FALSE]
    [] r.d = "fatal"   -> [msgs |-> acc, rest |-> buf, dead |-> TRUE]
    [] r.d = "skip"    -> Drain(SubSeq(buf, r.n + 1, Len(buf)), acc)
    [] r.d = "deliver" -> Drain(SubSeq(buf, r.n + 1, Len(buf)), Append(acc, r.m))

\* Design-level round trip (C07 on the model)
RoundTrip(m) == Parse(Encode(m)) = [d |-> "deliver", m |-> m, n |-> Len(Encode(m))]
=============================================================================
