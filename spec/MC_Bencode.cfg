SPECIFICATION Spec
CONSTANTS
  Alphabet <- MCAlphabet
  Code <- MCCode
  MaxLen = 6
INVARIANT ReEncodeInv
CHECK_DEADLOCK FALSE
