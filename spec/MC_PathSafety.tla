---- MODULE MC_PathSafety ----
EXTENDS PathSafety
MCComps == {"..", ".", "", "a", "b", "ROOT"}
====
