--------------------------- MODULE BencodeValues ---------------------------
(* Bencode values and the canonical encoder (constant level, no variables), shared by the    *)
(* recogniser (Bencode.tla), the generators and the document models.                          *)
(*   [t |-> "i", neg, d]  integer as sign + decimal digit symbols (no 32-bit limit)           *)
(*   [t |-> "s", v]       byte string as a sequence of symbols                                *)
(*   [t |-> "l", v]       list;  [t |-> "d", v] dictionary with items k1, v1, k2, v2, ...      *)
EXTENDS Naturals, Sequences, FiniteSets, TLC, SequencesExt

CONSTANT Code        \* symbol -> byte value (bytewise key order)

Digits == {"0", "1", "2", "3", "4", "5", "6", "7", "8", "9"}
DV == ("0" :> 0) @@ ("1" :> 1) @@ ("2" :> 2) @@ ("3" :> 3) @@ ("4" :> 4) @@
      ("5" :> 5) @@ ("6" :> 6) @@ ("7" :> 7) @@ ("8" :> 8) @@ ("9" :> 9)


IntV(neg, d) == [t |-> "i", neg |-> neg, d |-> d]
StrV(v)      == [t |-> "s", v |-> v]
ConV(k, its) == [t |-> k, v |-> its]          \* k = "l" or "d" (d: k1,v1,k2,v2,... in input order)


RECURSIVE LexLess(_, _)
LexLess(a, b) == IF a = <<>> THEN b # <<>>
                 ELSE IF b = <<>> THEN FALSE
                 ELSE IF Code[Head(a)] # Code[Head(b)] THEN Code[Head(a)] < Code[Head(b)]
                 ELSE LexLess(Tail(a), Tail(b))

\* keys of a finished dictionary <<k1,v1,k2,v2,...>> strictly ascending
KeysAscending(its) == \A i \in 1..(Len(its) \div 2 - 1) : LexLess(its[2*i-1].v, its[2*i+1].v)


\* does the integer [neg, d] fit a signed 64-bit value?  (digit-sequence comparison, no TLC arithmetic)
I64MaxDigits == <<"9","2","2","3","3","7","2","0","3","6","8","5","4","7","7","5","8","0","7">>
I64MinDigits == <<"9","2","2","3","3","7","2","0","3","6","8","5","4","7","7","5","8","0","8">>
RECURSIVE DigLeq(_, _)
DigLeq(a, b) == IF a = <<>> THEN TRUE                      \* same length assumed
                ELSE IF DV[Head(a)] # DV[Head(b)] THEN DV[Head(a)] < DV[Head(b)]
                ELSE DigLeq(Tail(a), Tail(b))
FitsI64(neg, d) == Len(d) < 19 \/ (Len(d) = 19 /\ DigLeq(d, IF neg THEN I64MinDigits ELSE I64MaxDigits))
RECURSIVE AllFit(_)
AllFit(v) == CASE v.t = "i" -> FitsI64(v.neg, v.d)
               [] v.t = "s" -> TRUE
               [] OTHER -> \A i \in 1..Len(v.v) : AllFit(v.v[i])

RECURSIVE NatDigits(_)
NatDigits(n) == IF n < 10 THEN << CHOOSE c \in Digits : DV[c] = n >>
                ELSE Append(NatDigits(n \div 10), CHOOSE c \in Digits : DV[c] = n % 10)

RECURSIVE Enc(_)
EncAll(vs) == FoldLeft(LAMBDA a, v : a \o Enc(v), <<>>, vs)
\* pairs <<k1,v1,k2,v2,...>> -> sequence of [k, v] with the LAST occurrence of a key winning
Pairs(its) == LET n == Len(its) \div 2
                  key(i) == its[2*i-1].v
                  lastIdx == {i \in 1..n : \A j \in (i+1)..n : key(j) # key(i)}
                  order == SetToSortSeq(lastIdx, LAMBDA i, j : LexLess(key(i), key(j)))
              IN  [x \in 1..Len(order) |-> [k |-> key(order[x]), v |-> its[2*order[x]]]]
Enc(v) == CASE v.t = "i" -> <<"i">> \o (IF v.neg THEN <<"-">> ELSE <<>>) \o v.d \o <<"e">>
            [] v.t = "s" -> NatDigits(Len(v.v)) \o <<":">> \o v.v
            [] v.t = "l" -> <<"l">> \o EncAll(v.v) \o <<"e">>
            [] v.t = "d" -> <<"d">> \o FoldLeft(LAMBDA a, p : a \o Enc(StrV(p.k)) \o Enc(p.v),
                                                 <<>>, Pairs(v.v)) \o <<"e">>


=============================================================================
