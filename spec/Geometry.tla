------------------------------ MODULE Geometry ------------------------------
(* C03 (and the arithmetic of C10/C17): how content is cut into pieces and files.             *)
(* The content of a torrent is the byte sequence 1..total (position-dependent, so a shifted    *)
(* or duplicated range is visible).  For a piece length PL and file lengths FL the module      *)
(* defines piece lengths, file spans and - as a small state machine - the extractor that       *)
(* walks over the pieces and appends the right slices to the files.  Every initial state is    *)
(* one geometry; TLC checks the partition/extraction invariants on it and the harness replays  *)
(* it against Metainfo::piece_length and the real Extractor.                                   *)
EXTENDS Naturals, Sequences, FiniteSets, TLC, SequencesExt

CONSTANTS PLs,        \* piece lengths to explore
          FLsOf(_),   \* piece length -> set of file lengths to explore
          MaxFiles

VARIABLES pl, fl,     \* the geometry (fixed by Init)
          out,        \* out[j] = content written to file j so far (sequence of positions)
          pc,         \* next piece the extractor model looks at
          exp         \* expectations handed to the replay: [total, np, plens, offs]

vars == <<pl, fl, out, pc, exp>>

RECURSIVE SumTo(_, _)
SumTo(s, n) == IF n = 0 THEN 0 ELSE s[n] + SumTo(s, n - 1)
Total == SumTo(fl, Len(fl))
NPieces == (Total + pl - 1) \div pl
PieceLen(i) == IF i < NPieces - 1 THEN pl                       \* i is 0-based
               ELSE IF Total % pl = 0 THEN pl ELSE Total % pl
Off(j) == SumTo(fl, j - 1)                                       \* offset of file j (1-based)
\* content positions (1-based) held by piece i / wanted by file j
PieceRange(i) == (i * pl + 1)..(i * pl + PieceLen(i))
FileRange(j) == (Off(j) + 1)..(Off(j) + fl[j])
\* 16 KiB tiling of a piece of length n with block size b: sequence of <<begin, len>>
Blocks(n, b) == [k \in 1..((n + b - 1) \div b) |->
                   <<(k - 1) * b, IF k * b <= n THEN b ELSE n - (k - 1) * b>>]

Init == /\ pl \in PLs
        /\ fl \in UNION {[1..n -> FLsOf(pl)] : n \in 1..MaxFiles}
        /\ out = [j \in 1..Len(fl) |-> <<>>]
        /\ pc = 0
        /\ exp = [total |-> Total, np |-> NPieces,
                   plens |-> [i \in 1..NPieces |-> PieceLen(i - 1)],
                   offs |-> [j \in 1..Len(fl) |-> Off(j)]]

\* the extractor model: take piece pc and append to every file the part of the piece it wants
Slice(j, i) == LET lo == IF Off(j) + 1 > i * pl + 1 THEN Off(j) + 1 ELSE i * pl + 1
                   hi == IF Off(j) + fl[j] < i * pl + PieceLen(i) THEN Off(j) + fl[j] ELSE i * pl + PieceLen(i)
               IN  IF lo <= hi THEN [x \in 1..(hi - lo + 1) |-> lo + x - 1] ELSE <<>>
Step == /\ pc < NPieces
        /\ out' = [j \in 1..Len(fl) |-> out[j] \o Slice(j, pc)]
        /\ pc' = pc + 1
        /\ UNCHANGED <<pl, fl, exp>>
Spec == Init /\ [][Step]_vars
\* for real-size geometries only the arithmetic is checked (no element-wise extractor model)
ArithSpec == Init /\ [][UNCHANGED vars]_vars

-----------------------------------------------------------------------------
\* piece lengths partition the content exactly
Partition == /\ \A i \in 0..(NPieces - 1) : PieceLen(i) \in 1..pl
             /\ UNION {PieceRange(i) : i \in 0..(NPieces - 1)} = 1..Total
             /\ \A i, k \in 0..(NPieces - 1) : i # k => PieceRange(i) \cap PieceRange(k) = {}
\* the same without building sets (usable for real piece sizes)
PartitionArith == /\ SumTo(exp.plens, exp.np) = Total
                  /\ \A i \in 1..exp.np : exp.plens[i] \in 1..pl
                  /\ \A i \in 1..(exp.np - 1) : exp.plens[i] = pl
\* when the extractor is done every file holds exactly its range, in order
Extracted == pc = NPieces =>
               \A j \in 1..Len(fl) : out[j] = [x \in 1..fl[j] |-> Off(j) + x]
\* the block tiling covers a piece exactly once (checked for block sizes 1..4 on every piece)
Tiling == \A i \in 0..(NPieces - 1) : \A b \in 1..4 :
             LET bl == Blocks(PieceLen(i), b) IN
               /\ \A k \in 1..Len(bl) : bl[k][2] \in 1..b
               /\ \A k \in 1..Len(bl) : bl[k][1] = (IF k = 1 THEN 0 ELSE bl[k-1][1] + bl[k-1][2])
               /\ (Len(bl) > 0 => bl[Len(bl)][1] + bl[Len(bl)][2] = PieceLen(i))
=============================================================================
