--------------------------- MODULE EncTrace ---------------------------
(* Implementation -> specification direction for C15: every line of the NDJSON file named by   *)
(* TRACE is one recorded run of rdest's BEncoder (and of BDecoder on its output):               *)
(*   [vals: the values given to the encoder, enc: symbols it produced, back: TRUE iff decoding  *)
(*    enc returned exactly vals].  TLC recomputes the canonical encoding Enc of Bencode.tla.    *)
EXTENDS Bencode, Json, IOUtils, ByteSyms

Rec == ndJsonDeserialize(IOEnv.TRACE)
VARIABLES l, bad
TInit == Init /\ l = 1 /\ bad = <<>>
LineOK == Rec[l].back /\ EncAll(Rec[l].vals) = Rec[l].enc
TNext == /\ UNCHANGED vars
         /\ l <= Len(Rec)
         /\ bad' = IF LineOK THEN bad ELSE Append(bad, l)
         /\ l' = l + 1
         /\ TLCSet(1, <<l, bad'>>)
TSpec == TInit /\ [][TNext]_<<vars, l, bad>>
Report == /\ PrintT(<<"TRACE_RESULT", TLCGet(1)[1]>>)
          /\ PrintT(<<"TRACE_BAD", TLCGet(1)[2]>>)
=============================================================================
