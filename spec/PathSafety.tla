---------------------------- MODULE PathSafety ----------------------------
(* C04: where extraction may create files.                                                     *)
(* A name/path string is a sequence of components joined by "/"; a leading empty component      *)
(* makes it absolute ("/a"), ROOT is an absolute prefix pointing into the sandbox (so that      *)
(* absolute paths can be exercised without touching the real file system root).  The module    *)
(* models an abstract file system position (list of directory names below the sandbox root,    *)
(* the client starts in <<"run">>), resolves the path the way the operating system does and    *)
(* classifies every (name, path, layout):                                                       *)
(*    clean   - no parent-directory component, not absolute: must be written at Loc             *)
(*    degenerate - no file name component at all: may be refused; nothing outside            *)
(*    hostile - must be refused or neutralised; nothing may be created outside the area         *)
(* Each initial state is one case; the walk over the components is the behaviour, and TLC       *)
(* checks that a clean path never leaves the allowed area at any step.                          *)
EXTENDS Naturals, Sequences, FiniteSets, TLC, SequencesExt

CONSTANTS Comps,      \* component alphabet, e.g. {"..", ".", "", "a", "b", "ROOT"}
          MaxLen      \* components per string

VARIABLES name, path, multi,   \* the case: torrent name, file path, multi-file layout?
          todo,                \* components still to be walked
          cur,                 \* current position: sequence of directory names below the sandbox root
          left,                \* TRUE once the walk was outside the allowed area
          exp                  \* expectations handed to the replay: [class, loc, area]

vars == <<name, path, multi, todo, cur, left, exp>>

Start == <<"run">>                       \* the directory the client was started in
\* ROOT is meaningful only as the first component
Strs == {s \in UNION {[1..n -> Comps] : n \in 1..MaxLen} : \A i \in 2..Len(s) : s[i] # "ROOT"}

Absolute(s) == s[1] \in {"", "ROOT"}
HasParent(s) == \E i \in 1..Len(s) : s[i] = ".."
Hostile(s) == Absolute(s) \/ HasParent(s)
Normal(s) == SelectSeq(s, LAMBDA c : c \notin {"", ".", "..", "ROOT"})

\* the string as the operating system sees it when it is joined to the start directory:
\* for multi-file torrents name/path (an absolute path replaces what is before it)
Joined == IF multi THEN (IF Absolute(path) THEN path ELSE name \o path) ELSE name

\* degenerate: the string does not end in a file name ("a/", "a/.", "."): may be refused or
\* written somewhere inside the area
Class == IF Hostile(name) \/ (multi /\ Hostile(path)) THEN "hostile"
         ELSE IF Last(IF multi THEN path ELSE name) \in {"", "."} THEN "degenerate"
         ELSE "clean"
\* where a clean case must end up (directories below the sandbox root; the last one is the file)
Loc == Start \o Normal(IF multi THEN name \o path ELSE name)
\* the area everything must stay in
Area == IF multi /\ Class = "clean" THEN Start \o Normal(name) ELSE Start
Inside(p) == Len(p) >= Len(Area) /\ SubSeq(p, 1, Len(Area)) = Area
\* on the way down into the area (start directory .. area) or inside it
OnTheWay(p) == Inside(p) \/ (Len(p) >= Len(Start) /\ Len(p) < Len(Area) /\ SubSeq(Area, 1, Len(p)) = p)

Init == /\ name \in Strs
        /\ multi \in BOOLEAN
        /\ path \in (IF multi THEN Strs ELSE {<<>>})
        /\ todo = Joined
        /\ cur = Start
        /\ left = FALSE
        /\ exp = [class |-> Class, loc |-> Loc, area |-> Area]

Walk == /\ todo # <<>>
        /\ LET c == Head(todo)
               nxt == IF c = "ROOT" THEN <<"abs_target">>
                      ELSE IF c = "" /\ Len(todo) = Len(Joined) THEN <<>>      \* leading "/": file system root
                      ELSE IF c \in {"", "."} THEN cur
                      ELSE IF c = ".." THEN (IF cur = <<>> THEN <<>> ELSE Front(cur))
                      ELSE Append(cur, c)
           IN  /\ cur' = nxt
               /\ left' = (left \/ ~OnTheWay(nxt) \/ (Len(todo) = 1 /\ ~Inside(nxt)))
        /\ todo' = Tail(todo)
        /\ UNCHANGED <<name, path, multi, exp>>
Spec == Init /\ [][Walk]_vars

\* design-level soundness of the classification: following a clean path the way the OS does never
\* leaves the allowed area, and ends exactly at Loc
CleanStaysInside == Class = "clean" => ~left
CleanEndsAtLoc == (Class = "clean" /\ todo = <<>>) => cur = Loc
=============================================================================
