--------------------------- MODULE BencodeTrace ---------------------------
(* Implementation -> specification direction for C16 (and C15): every line of the NDJSON file  *)
(* named by the environment variable TRACE is one decoder run recorded from rdest:              *)
(*   [inp: symbols fed to BDecoder::from_array, panic, ok, vals: values it returned].           *)
(* The reference automaton of Bencode.tla is stepped over the same input by TLC and the         *)
(* recorded verdict must be the one the automaton demands.  Mismatches are collected (not       *)
(* fatal) so that the rest of the trace is still examined; the result is printed by the        *)
(* POSTCONDITION.                                                                               *)
EXTENDS Bencode, Json, IOUtils, ByteSyms

Rec == ndJsonDeserialize(IOEnv.TRACE)

VARIABLES l,     \* current line
          pos,   \* symbols of the current line already consumed
          bad,   \* mismatching lines with the automaton's final state
          sp,    \* <<start, end>> (0-based, end exclusive) of the value of the first key "info" in the
                 \* first top-level dictionary of the current line; 0 = not seen (yet)
          spans  \* sp of every finished line (for C05: the byte span the info-hash must cover)

tvars == <<vars, l, pos, bad, sp, spans>>

KInfoSyms == <<"i", "n", "f", "o">>
\* the first top-level value is a dictionary and we are directly inside it
InDoc(st) == Len(st) = 2 /\ st[2].k = "d" /\ Len(st[1].items) = 0
LastKeyIsInfo(its) == Len(its) >= 1 /\ its[Len(its) - (1 - (Len(its) % 2))] = StrV(KInfoSyms)
\* directly inside the document dictionary, between two entries / between a key and its value
AtEntry(st, md, parity) == InDoc(st) /\ md = "val" /\ Len(st[2].items) % 2 = parity
NextSpan(cur, st, md, p) ==
  IF cur[1] = 0 /\ AtEntry(st, md, 1) /\ LastKeyIsInfo(st[2].items) THEN <<p, 0>>   \* key "info" just read
  ELSE IF cur[1] # 0 /\ cur[2] = 0 /\ AtEntry(st, md, 0) THEN <<cur[1], p>>         \* ... and now its value
  ELSE cur

Doc == Rec[l]

RECURSIVE Match(_, _)
MatchAll(vs, ws) == Len(vs) = Len(ws) /\ \A i \in 1..Len(vs) : Match(vs[i], ws[i])
\* v: value built by the automaton (dictionary = k1,v1,k2,v2,... in input order)
\* w: value reported by rdest (dictionary = sequence of <<key, value>> pairs, unique keys)
Match(v, w) ==
  /\ v.t = w.t
  /\ CASE v.t = "i" -> v.neg = w.neg /\ v.d = w.d
       [] v.t = "s" -> v.v = w.v
       [] v.t = "l" -> MatchAll(v.v, w.v)
       [] v.t = "d" ->
            LET n == Len(v.v) \div 2
                specKeys == {v.v[2*i-1] : i \in 1..n}
                implKeys == {w.v[j][1] : j \in 1..Len(w.v)}
            IN  /\ specKeys = implKeys
                /\ Len(w.v) = Cardinality(implKeys)
                /\ \A j \in 1..Len(w.v) :
                      \E i \in 1..n : v.v[2*i-1] = w.v[j][1] /\ Match(v.v[2*i], w.v[j][2])

\* integers beyond the signed 64-bit range are outside the property's enumeration: a decoder may reject them
InRange == \A i \in 1..Len(Values) : AllFit(Values[i])
VerdictOK == /\ ~Doc.panic
             /\ (Accepting /\ ~InRange) \/ (Doc.ok = Accepting)
             /\ (Doc.ok => Accepting /\ MatchAll(Values, Doc.vals))

TInit == Init /\ l = 1 /\ pos = 0 /\ bad = <<>> /\ sp = <<0, 0>> /\ spans = <<>>

Consume == /\ l <= Len(Rec)
           /\ pos < Len(Doc.inp)
           /\ mode # "dead"
           /\ Step(Doc.inp[pos + 1])
           /\ pos' = pos + 1
           /\ sp' = NextSpan(sp, stack', mode', pos')
           /\ UNCHANGED <<l, bad, spans>>

Judge == /\ l <= Len(Rec)
         /\ (pos = Len(Doc.inp) \/ mode = "dead")
         /\ bad' = IF VerdictOK THEN bad
                   ELSE Append(bad, [l |-> l, mode |-> mode, stack |-> stack])
         /\ l' = l + 1
         /\ pos' = 0
         /\ inp' = <<>>
         /\ stack' = << [k |-> "top", items |-> <<>>] >>
         /\ mode' = "val"
         /\ acc' = Acc0
         /\ nc' = FALSE
         /\ sp' = <<0, 0>>
         /\ spans' = Append(spans, sp)
         /\ TLCSet(1, <<l, bad'>>)
         /\ TLCSet(2, spans')

TNext == Consume \/ Judge
TSpec == TInit /\ [][TNext]_tvars

Report == /\ PrintT(<<"TRACE_RESULT", TLCGet(1)[1]>>)
          /\ PrintT(<<"TRACE_BAD", TLCGet(1)[2]>>)
          /\ PrintT(<<"TRACE_SPANS", TLCGet(2)>>)
=============================================================================
