--------------------------- MODULE BencodeTrace ---------------------------
(* Implementation -> specification direction for C16 (and C15): every line of the NDJSON file  *)
(* named by the environment variable TRACE is one decoder run recorded from rdest:              *)
(*   [inp: symbols fed to BDecoder::from_array, panic, ok, vals: values it returned].           *)
(* The reference automaton of Bencode.tla is stepped over the same input by TLC and the         *)
(* recorded verdict must be the one the automaton demands.  Mismatches are collected (not       *)
(* fatal) so that the rest of the trace is still examined; the result is printed by the        *)
(* POSTCONDITION.                                                                               *)
EXTENDS Bencode, Json, IOUtils, ByteSyms

Rec == ndJsonDeserialize(IOEnv.TRACE)

VARIABLES l,     \* current line
          pos,   \* symbols of the current line already consumed
          bad    \* mismatching lines with the automaton's final state

tvars == <<vars, l, pos, bad>>

Doc == Rec[l]

RECURSIVE Match(_, _)
MatchAll(vs, ws) == Len(vs) = Len(ws) /\ \A i \in 1..Len(vs) : Match(vs[i], ws[i])
\* v: value built by the automaton (dictionary = k1,v1,k2,v2,... in input order)
\* w: value reported by rdest (dictionary = sequence of <<key, value>> pairs, unique keys)
Match(v, w) ==
  /\ v.t = w.t
  /\ CASE v.t = "i" -> v.neg = w.neg /\ v.d = w.d
       [] v.t = "s" -> v.v = w.v
       [] v.t = "l" -> MatchAll(v.v, w.v)
       [] v.t = "d" ->
            LET n == Len(v.v) \div 2
                specKeys == {v.v[2*i-1] : i \in 1..n}
                implKeys == {w.v[j][1] : j \in 1..Len(w.v)}
            IN  /\ specKeys = implKeys
                /\ Len(w.v) = Cardinality(implKeys)
                /\ \A j \in 1..Len(w.v) :
                      \E i \in 1..n : v.v[2*i-1] = w.v[j][1] /\ Match(v.v[2*i], w.v[j][2])

VerdictOK == /\ ~Doc.panic
             /\ Doc.ok = Accepting
             /\ (Accepting => MatchAll(Values, Doc.vals))

TInit == Init /\ l = 1 /\ pos = 0 /\ bad = <<>>

Consume == /\ l <= Len(Rec)
           /\ pos < Len(Doc.inp)
           /\ mode # "dead"
           /\ Step(Doc.inp[pos + 1])
           /\ pos' = pos + 1
           /\ UNCHANGED <<l, bad>>

Judge == /\ l <= Len(Rec)
         /\ (pos = Len(Doc.inp) \/ mode = "dead")
         /\ bad' = IF VerdictOK THEN bad
                   ELSE Append(bad, [l |-> l, mode |-> mode, stack |-> stack])
         /\ l' = l + 1
         /\ pos' = 0
         /\ inp' = <<>>
         /\ stack' = << [k |-> "top", items |-> <<>>] >>
         /\ mode' = "val"
         /\ acc' = Acc0
         /\ nc' = FALSE
         /\ TLCSet(1, <<l, bad'>>)

TNext == Consume \/ Judge
TSpec == TInit /\ [][TNext]_tvars

Report == /\ PrintT(<<"TRACE_RESULT", TLCGet(1)[1]>>)
          /\ PrintT(<<"TRACE_BAD", TLCGet(1)[2]>>)
=============================================================================
