---- MODULE MC_Swarm ----
(* Bounded instances of Swarm.tla for exhaustive checking: every remote frame, stats tick and   *)
(* connection attempt consumes fuel, so the adversarial environment is finite.                   *)
EXTENDS Swarm
CONSTANTS Fuel,       \* remote frames per peer
          ConnFuel,   \* connection attempts per peer
          TickFuel    \* timer ticks per peer
VARIABLES fuel
mcvars == <<vars, fuel>>
MCInit == Init /\ fuel = [k \in Peers |-> [f |-> Fuel, c |-> ConnFuel, t |-> TickFuel]]
Spend(k, fld) == fuel[k][fld] > 0 /\ fuel' = [fuel EXCEPT ![k][fld] = @ - 1]
MCStep ==
  \/ \E k \in Peers, inc \in BOOLEAN : Connect(k, inc) /\ Spend(k, "c")
  \* (refused duplicates change nothing in the repaired design; they are explored for the as-found variant only)
  \/ \E k \in Peers : Bug("dupAccept") /\ ConnectDup(k) /\ Spend(k, "c")
  \/ \E k \in Peers : FrameStep(k) /\ Spend(k, "f")
  \/ \E k \in Peers : (HTickKA(k) \/ \E ul \in Rates : HTickStats(k, 0, ul)) /\ Spend(k, "t")
  \/ \E k \in Peers : (HStart(k) \/ HBroadHave(k) \/ HBroadState(k) \/ HBroadReleased(k) \/ \E n \in Pipeline : HReply(k, n)) /\ UNCHANGED fuel
  \/ \E k \in Peers : FK("Bad") /\ HReplyLost(k) /\ Spend(k, "f")
  \/ ManagerStep /\ UNCHANGED fuel
  \/ BroadcastDrained /\ Rotation /\ UNCHANGED fuel
MCNext == MCStep /\ due' = DueNext
MCSpec == MCInit /\ [][MCNext]_mcvars
\* `sent` only feeds the per-step properties (C01Step ...), so states that differ in it alone are merged
MCView == <<st, mp, mg, mq, h, bq, stored, wire, panic, due, ann, fuel>>
CONSTANT MaxQ
QBound == Len(mq) <= MaxQ
N2 == (1 :> 1) @@ (2 :> 2)
N3 == (1 :> 1) @@ (2 :> 2) @@ (3 :> 1)
N1 == (1 :> 1)
N3b == (1 :> 3) @@ (2 :> 1)
N1x2 == (1 :> 1) @@ (2 :> 1)
N1x3 == (1 :> 1) @@ (2 :> 1) @@ (3 :> 1)
====
