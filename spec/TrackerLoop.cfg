SPECIFICATION Spec
CONSTANTS
  ChanCap = 2
  MaxFail = 5
  JoinAfter = "resp"
PROPERTIES EventuallyContacted PeersServed NeverStuck
