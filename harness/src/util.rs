use serde_json::{json, Value};
use std::panic::{catch_unwind, AssertUnwindSafe};

pub fn hex(b: &[u8]) -> String {
    b.iter().map(|x| format!("{:02x}", x)).collect()
}

pub fn unhex(s: &str) -> Vec<u8> {
    (0..s.len() / 2)
        .map(|i| u8::from_str_radix(&s[2 * i..2 * i + 2], 16).unwrap())
        .collect()
}

pub fn sha1(b: &[u8]) -> [u8; 20] {
    let mut h = sha1_smol::Sha1::new();
    h.update(b);
    h.digest().bytes()
}

/// Run `f`, turning a panic into `Err(message)`.
pub fn guarded<T>(f: impl FnOnce() -> T) -> Result<T, String> {
    match catch_unwind(AssertUnwindSafe(f)) {
        Ok(v) => Ok(v),
        Err(e) => Err(if let Some(s) = e.downcast_ref::<&str>() {
            s.to_string()
        } else if let Some(s) = e.downcast_ref::<String>() {
            s.clone()
        } else {
            "panic".to_string()
        }),
    }
}

pub fn quiet_panics() {
    std::panic::set_hook(Box::new(|_| {}));
}

pub fn bvalue_to_json(v: &rdest::BValue) -> Value {
    use rdest::BValue::*;
    match v {
        Int(i) => json!({"i": i.to_string()}),
        ByteStr(b) => json!({"s": hex(b)}),
        List(l) => json!({"l": l.iter().map(bvalue_to_json).collect::<Vec<_>>()}),
        Dict(d) => {
            let mut items: Vec<(&Vec<u8>, &rdest::BValue)> = d.iter().collect();
            items.sort_by(|a, b| a.0.cmp(b.0));
            json!({"d": items.iter().map(|(k, v)| json!([hex(k), bvalue_to_json(v)])).collect::<Vec<_>>()})
        }
    }
}

pub fn json_to_bvalue(v: &Value) -> rdest::BValue {
    use rdest::BValue::*;
    let o = v.as_object().unwrap();
    if let Some(i) = o.get("i") {
        return Int(i.as_str().unwrap().parse().unwrap());
    }
    if let Some(s) = o.get("s") {
        return ByteStr(unhex(s.as_str().unwrap()));
    }
    if let Some(l) = o.get("l") {
        return List(l.as_array().unwrap().iter().map(json_to_bvalue).collect());
    }
    let d = o.get("d").unwrap().as_array().unwrap();
    Dict(
        d.iter()
            .map(|kv| {
                let kv = kv.as_array().unwrap();
                (unhex(kv[0].as_str().unwrap()), json_to_bvalue(&kv[1]))
            })
            .collect(),
    )
}
