//! Shared helpers of the conformance harness (no rdest logic is re-implemented here, only
//! encodings of test data and an independent reader for what the client writes).
pub mod util;
