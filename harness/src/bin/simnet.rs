//! Deterministic full-stack runner: a real `Session::run()` with real `PeerHandler`s and
//! `Connection`s on the in-memory network shim and the scripted tracker transport, single-threaded
//! runtime, paused clock. Executes one scenario (JSON) against scripted/auto-responding peers and
//! writes the recorded trace (hook events + driver events + externally observed output) as NDJSON.
use rdest::verif::{http, net, trace};
use rdest_verif_harness::util::*;
use serde_json::{json, Value};
use std::collections::VecDeque;
use std::time::Duration;
use tokio::io::{AsyncReadExt, AsyncWriteExt, DuplexStream};

fn content(n: usize, pat: u64) -> Vec<u8> {
    (0..n).map(|i| ((i * 131 + pat as usize) % 251) as u8).collect()
}

struct Torrent {
    pl: usize,
    data: Vec<u8>,
    npieces: usize,
    bytes: Vec<u8>,
    hashes: Vec<[u8; 20]>,
}

fn benc_str(out: &mut Vec<u8>, s: &[u8]) {
    out.extend_from_slice(s.len().to_string().as_bytes());
    out.push(b':');
    out.extend_from_slice(s);
}

fn build_torrent(t: &Value) -> Torrent {
    let pl = t["piece_length"].as_u64().unwrap() as usize;
    let files: Vec<usize> = t["files"].as_array().unwrap().iter().map(|x| x.as_u64().unwrap() as usize).collect();
    let total: usize = files.iter().sum();
    let data = content(total, t["pat"].as_u64().unwrap_or(0));
    let hashes: Vec<[u8; 20]> = data.chunks(pl).map(|c| sha1(c)).collect();
    let mut pieces = vec![];
    for h in hashes.iter() {
        pieces.extend_from_slice(h);
    }
    // d8:announce..4:infod[5:files|6:length]4:name..12:piece length..6:pieces..ee  (keys sorted)
    let mut b = vec![];
    b.extend_from_slice(b"d8:announce");
    benc_str(&mut b, t["announce"].as_str().unwrap_or("http://tracker.invalid/announce").as_bytes());
    b.extend_from_slice(b"4:infod");
    if files.len() > 1 || t["multi"].as_bool().unwrap_or(false) {
        b.extend_from_slice(b"5:filesl");
        for (i, l) in files.iter().enumerate() {
            b.extend_from_slice(format!("d6:lengthi{}e4:path", l).as_bytes());
            benc_str(&mut b, format!("f{}", i).as_bytes());
            b.push(b'e');
        }
        b.push(b'e');
    } else {
        b.extend_from_slice(format!("6:lengthi{}e", total).as_bytes());
    }
    b.extend_from_slice(b"4:name");
    benc_str(&mut b, t["name"].as_str().unwrap_or("out").as_bytes());
    b.extend_from_slice(format!("12:piece lengthi{}e6:pieces", pl).as_bytes());
    benc_str(&mut b, &pieces);
    b.extend_from_slice(b"ee");
    Torrent { pl, npieces: hashes.len(), data, bytes: b, hashes }
}

impl Torrent {
    fn piece_len(&self, i: usize) -> usize {
        std::cmp::min(self.pl, self.data.len() - i * self.pl)
    }
    fn block(&self, i: usize, begin: usize, len: usize) -> Option<&[u8]> {
        if i >= self.npieces || begin + len > self.piece_len(i) {
            return None;
        }
        Some(&self.data[i * self.pl + begin..i * self.pl + begin + len])
    }
}

struct Peer {
    addr: String,
    /// name used in harness-side events; differs from addr for a second connection from the same address
    label: String,
    /// keeps answering the requests it got even after it choked the client
    rude: bool,
    id: [u8; 20],
    stream: Option<tokio::io::ReadHalf<DuplexStream>>,
    out: Option<tokio::sync::mpsc::UnboundedSender<Vec<u8>>>,
    inbuf: Vec<u8>,
    closed_seen: bool,
    has: Vec<bool>,
    // auto-responder
    auto_serve: String, // "none" | "good" | "corrupt"
    corrupt: Vec<usize>,
    lifo: bool,
    we_unchoked_client: bool,
    pending: VecDeque<(usize, usize, usize)>,
    hold: usize, // answer only while more than `hold` requests are pending (withholds the last ones)
    buf: usize,  // capacity of the in-memory stream (a small one makes the client block while writing)
}

/// The remote end of a connection: the driver reads from it; writes go through a queue served by a
/// separate task, so a client that does not read (because it is itself blocked writing into a small
/// stream) never blocks the driver.
fn attach(peer: &mut Peer, s: DuplexStream) {
    let (r, mut w) = tokio::io::split(s);
    let (tx, mut rx) = tokio::sync::mpsc::unbounded_channel::<Vec<u8>>();
    tokio::task::spawn_local(async move {
        while let Some(bytes) = rx.recv().await {
            if w.write_all(&bytes).await.is_err() {
                break;
            }
        }
    });
    peer.stream = Some(r);
    peer.out = Some(tx);
}

fn push(peer: &mut Peer, bytes: &[u8]) {
    if let Some(tx) = peer.out.as_ref() {
        let _ = tx.send(bytes.to_vec());
    }
}

fn be32(v: usize) -> [u8; 4] {
    (v as u32).to_be_bytes()
}

/// harness's own encoder for the frames scripted peers send
fn encode_frame(f: &Value, t: &Torrent, info_hash: &[u8; 20], id: &[u8; 20]) -> Vec<u8> {
    let k = f["k"].as_str().unwrap();
    let a: Vec<usize> = f["a"].as_array().map(|v| v.iter().map(|x| x.as_u64().unwrap() as usize).collect()).unwrap_or_default();
    let mut out = vec![];
    match k {
        "Handshake" => {
            out.push(19);
            out.extend_from_slice(f["pstr"].as_str().map(|s| unhex(s)).unwrap_or(b"BitTorrent protocol".to_vec()).as_slice());
            out.extend_from_slice(&[0; 8]);
            match f["ih"].as_str() {
                Some(h) => out.extend_from_slice(&unhex(h)),
                None => out.extend_from_slice(info_hash),
            }
            match f["id"].as_str() {
                Some(h) => out.extend_from_slice(&unhex(h)),
                None => out.extend_from_slice(id),
            }
        }
        "KeepAlive" => out.extend_from_slice(&[0, 0, 0, 0]),
        "Choke" | "Unchoke" | "Interested" | "NotInterested" => {
            out.extend_from_slice(&[0, 0, 0, 1]);
            out.push(match k { "Choke" => 0, "Unchoke" => 1, "Interested" => 2, _ => 3 });
        }
        "Have" => {
            out.extend_from_slice(&[0, 0, 0, 5, 4]);
            out.extend_from_slice(&be32(a[0]));
        }
        "Bitfield" => {
            let body = match f["hex"].as_str() {
                Some(h) => unhex(h),
                None => {
                    let n = t.npieces;
                    let mut v = vec![0u8; (n + 7) / 8];
                    for p in f["set"].as_array().unwrap() {
                        let p = p.as_u64().unwrap() as usize;
                        v[p / 8] |= 0x80 >> (p % 8);
                    }
                    v
                }
            };
            out.extend_from_slice(&be32(1 + body.len()));
            out.push(5);
            out.extend_from_slice(&body);
        }
        "Request" | "Cancel" => {
            out.extend_from_slice(&[0, 0, 0, 13, if k == "Request" { 6 } else { 8 }]);
            for x in a.iter().take(3) {
                out.extend_from_slice(&be32(*x));
            }
        }
        "Piece" => {
            // a = [index, begin, len]; data = true content unless "bad"
            let mut data = match t.block(a[0], a[1], a[2]) {
                Some(d) => d.to_vec(),
                None => vec![0x5a; a[2]],
            };
            if f["bad"].as_bool().unwrap_or(false) && !data.is_empty() {
                let n = data.len();
                data[n / 2] ^= 0xff;
            }
            out.extend_from_slice(&be32(9 + data.len()));
            out.push(7);
            out.extend_from_slice(&be32(a[0]));
            out.extend_from_slice(&be32(a[1]));
            out.extend_from_slice(&data);
        }
        "Raw" => out.extend_from_slice(&unhex(f["hex"].as_str().unwrap())),
        _ => panic!("unknown frame kind {}", k),
    }
    out
}

/// harness's own reader for what the client writes (independent of rdest's parser)
fn decode_out(buf: &mut Vec<u8>, t: &Torrent) -> Vec<Value> {
    let mut res = vec![];
    loop {
        if buf.len() >= 1 && buf[0] == 19 && (buf.len() < 5 || buf[4] == b'T') {
            if buf.len() < 68 {
                break;
            }
            res.push(json!({"k": "Handshake", "pstr": hex(&buf[1..20]), "ih": hex(&buf[28..48]), "id": hex(&buf[48..68])}));
            buf.drain(..68);
            continue;
        }
        if buf.len() < 4 {
            break;
        }
        let len = u32::from_be_bytes([buf[0], buf[1], buf[2], buf[3]]) as usize;
        if len == 0 {
            res.push(json!({"k": "KeepAlive"}));
            buf.drain(..4);
            continue;
        }
        if buf.len() < 4 + len {
            break;
        }
        let id = buf[4];
        let body = buf[5..4 + len].to_vec();
        let rd = |o: usize| u32::from_be_bytes([body[o], body[o + 1], body[o + 2], body[o + 3]]) as usize;
        let v = match (id, body.len()) {
            (0, 0) => json!({"k": "Choke"}),
            (1, 0) => json!({"k": "Unchoke"}),
            (2, 0) => json!({"k": "Interested"}),
            (3, 0) => json!({"k": "NotInterested"}),
            (4, 4) => json!({"k": "Have", "a": [rd(0)]}),
            (5, _) => json!({"k": "Bitfield", "hex": hex(&body)}),
            (6, 12) => json!({"k": "Request", "a": [rd(0), rd(4), rd(8)]}),
            (8, 12) => json!({"k": "Cancel", "a": [rd(0), rd(4), rd(8)]}),
            (7, n) if n >= 8 => {
                let (i, b, l) = (rd(0), rd(4), n - 8);
                let good = t.block(i, b, l).map(|d| d == &body[8..]).unwrap_or(false);
                json!({"k": "Piece", "a": [i, b, l], "sha": hex(&sha1(&body[8..])), "good": good})
            }
            _ => json!({"k": "Raw", "hex": hex(&buf[..std::cmp::min(4 + len, 32)])}),
        };
        res.push(v);
        buf.drain(..4 + len);
    }
    res
}

fn emit(ev: &str, body: String) {
    let sep = if body.is_empty() { "" } else { "," };
    trace::emit("drv", &format!("\"ev\":\"{}\"{}{}", ev, sep, body));
}

async fn quiesce() {
    tokio::time::sleep(Duration::from_millis(1)).await;
}

fn disk_scan(t: &Torrent, run: &std::path::Path) {
    let mut pieces = vec![];
    let mut others = vec![];
    let mut stack = vec![run.to_path_buf()];
    while let Some(d) = stack.pop() {
        let mut entries: Vec<_> = match std::fs::read_dir(&d) {
            Ok(rd) => rd.filter_map(|e| e.ok()).collect(),
            Err(_) => continue,
        };
        entries.sort_by_key(|e| e.file_name());
        for e in entries {
            let p = e.path();
            if p.is_dir() {
                stack.push(p);
                continue;
            }
            let rel = p.strip_prefix(run).unwrap().to_string_lossy().to_string();
            let data = std::fs::read(&p).unwrap_or_default();
            let h = sha1(&data);
            if rel.ends_with(".piece") {
                let idx = t.hashes.iter().position(|x| *x == h);
                let name_ok = rel == format!("{}.piece", h.iter().map(|b| format!("{:02X}", b)).collect::<String>());
                pieces.push(json!({"file": rel, "idx": idx, "good": idx.is_some() && name_ok, "len": data.len()}));
            } else {
                others.push(json!({"file": rel, "len": data.len(), "sha": hex(&h)}));
            }
        }
    }
    emit("Disk", format!("\"pieces\":{},\"files\":{}", json!(pieces), json!(others)));
}

fn main() {
    let args: Vec<String> = std::env::args().collect();
    let sc: Value = serde_json::from_str(&std::fs::read_to_string(&args[1]).unwrap()).unwrap();
    let out_path = std::fs::canonicalize(std::path::Path::new(&args[2]).parent().unwrap_or(std::path::Path::new(".")))
        .map(|p| p.join(std::path::Path::new(&args[2]).file_name().unwrap()))
        .unwrap_or(std::path::PathBuf::from(&args[2]));
    let scratch = std::path::PathBuf::from(sc["scratch"].as_str().unwrap());
    let _ = std::fs::remove_dir_all(&scratch);
    let run = scratch.join("run");
    std::fs::create_dir_all(&run).unwrap();
    std::env::set_current_dir(&run).unwrap();

    // panics are data: record them
    let panics: std::sync::Arc<std::sync::Mutex<Vec<String>>> = Default::default();
    {
        let panics = panics.clone();
        std::panic::set_hook(Box::new(move |info| {
            let msg = if let Some(s) = info.payload().downcast_ref::<&str>() {
                s.to_string()
            } else if let Some(s) = info.payload().downcast_ref::<String>() {
                s.clone()
            } else {
                "panic".to_string()
            };
            let loc = info.location().map(|l| format!("{}:{}", l.file(), l.line())).unwrap_or_default();
            panics.lock().unwrap().push(format!("{} @ {}", msg, loc));
        }));
    }
    // the progress view draws on stdout: silence it
    unsafe {
        let devnull = std::ffi::CString::new("/dev/null").unwrap();
        let fd = libc_open(devnull.as_ptr(), 1);
        if fd >= 0 {
            libc_dup2(fd, 1);
        }
    }

    // watchdog (real time): if the run does not come to an end (e.g. a task spins after the manager died),
    // write what was recorded so far, plus the panics seen, and leave
    {
        let panics = panics.clone();
        let out_path = out_path.clone();
        let limit = sc["watchdog_s"].as_u64().unwrap_or(25);
        std::thread::spawn(move || {
            std::thread::sleep(Duration::from_secs(limit));
            for p in panics.lock().unwrap().drain(..) {
                emit("Panic", format!("\"msg\":\"{}\"", trace::esc(&p)));
            }
            emit("Hang", String::new());
            let lines = trace::stop();
            let _ = std::fs::write(&out_path, lines.join("\n") + "\n");
            std::process::exit(0);
        });
    }
    let rt = tokio::runtime::Builder::new_current_thread().enable_all().start_paused(true).build().unwrap();
    let local = tokio::task::LocalSet::new();
    let lines = local.block_on(&rt, async move { run_scenario(sc, run.clone(), panics).await });
    std::fs::write(&out_path, lines.join("\n") + "\n").unwrap();
    let _ = std::env::set_current_dir("/");
    let _ = std::fs::remove_dir_all(&scratch);
    std::process::exit(0);
}

extern "C" {
    #[link_name = "open"]
    fn libc_open(path: *const std::os::raw::c_char, flags: i32) -> i32;
    #[link_name = "dup2"]
    fn libc_dup2(a: i32, b: i32) -> i32;
}

async fn run_scenario(sc: Value, run: std::path::PathBuf, panics: std::sync::Arc<std::sync::Mutex<Vec<String>>>) -> Vec<String> {
    let t = build_torrent(&sc["torrent"]);
    let metainfo = rdest::Metainfo::from_bencode(&t.bytes).expect("harness torrent must parse");
    let info_hash = *metainfo.info_hash();
    let own_id = *b"-RD0001-verifverif01";
    let buf_size = sc["duplex_buf"].as_u64().unwrap_or(1 << 24) as usize;

    let t0 = tokio::time::Instant::now();
    trace::start();
    net::activate();
    rdest::verif::clear_rate_overrides();
    rdest::verif::chan::delay_replies(0, 0);

    let mut peers: Vec<Peer> = sc["peers"].as_array().unwrap().iter().map(|p| {
        let mut id = [0u8; 20];
        match p["id_hex"].as_str() {
            Some(h) => id.copy_from_slice(&unhex(h)),      // ids need not be text
            None => id.copy_from_slice(p["id"].as_str().unwrap().as_bytes()),
        }
        let mut has = vec![false; t.npieces];
        for x in p["has"].as_array().map(|v| v.clone()).unwrap_or_default() {
            has[x.as_u64().unwrap() as usize] = true;
        }
        Peer { addr: p["addr"].as_str().unwrap().to_string(), label: p["label"].as_str().unwrap_or(p["addr"].as_str().unwrap()).to_string(), rude: p["rude"].as_bool().unwrap_or(false), id, stream: None, out: None, inbuf: vec![], closed_seen: false, has,
               auto_serve: p["serve"].as_str().unwrap_or("none").to_string(),
               corrupt: p["corrupt"].as_array().map(|v| v.iter().map(|x| x.as_u64().unwrap() as usize).collect()).unwrap_or_default(),
               lifo: p["lifo"].as_bool().unwrap_or(false), we_unchoked_client: false, pending: VecDeque::new(),
               hold: p["hold"].as_u64().unwrap_or(0) as usize,
               buf: p["buf"].as_u64().map(|b| b as usize).unwrap_or(buf_size) }
    }).collect();

    // tracker script: list of outcomes; a "peers" outcome lists peer indices to announce
    let mk_outcome = |o: &Value, peers: &Vec<Peer>| -> http::Outcome {
        match o["k"].as_str().unwrap() {
            "refused" => http::Outcome::Refused,
            "status" => http::Outcome::Reply(o["code"].as_u64().unwrap() as u16, o["hex"].as_str().map(|h| unhex(h)).unwrap_or(b"err".to_vec())),
            "body" => http::Outcome::Reply(200, unhex(o["hex"].as_str().unwrap())),
            "hang" => http::Outcome::Hang,
            _ => {
                let mut b = b"d8:intervali1800e5:peersl".to_vec();
                for i in o["peers"].as_array().unwrap() {
                    let p = &peers[i.as_u64().unwrap() as usize];
                    let (ip, port) = p.addr.rsplit_once(':').unwrap();
                    b.extend_from_slice(b"d2:ip");
                    benc_str(&mut b, ip.as_bytes());
                    b.extend_from_slice(b"7:peer id");
                    benc_str(&mut b, &p.id);
                    b.extend_from_slice(format!("4:porti{}ee", port).as_bytes());
                }
                b.extend_from_slice(b"ee");
                http::Outcome::Reply(200, b)
            }
        }
    };
    let outcomes: Vec<http::Outcome> = sc["tracker"].as_array().map(|v| v.iter().map(|o| mk_outcome(o, &peers)).collect()).unwrap_or_default();
    http::install(outcomes, http::Outcome::Hang);

    emit("Reset", format!("\"npieces\":{},\"plens\":{},\"info_hash\":\"{}\",\"own_id\":\"{}\",\"peers\":{}",
        t.npieces, json!((0..t.npieces).map(|i| t.piece_len(i)).collect::<Vec<_>>()), hex(&info_hash), hex(&own_id),
        json!(peers.iter().map(|p| json!({"addr": p.label, "id": hex(&p.id)})).collect::<Vec<_>>())));

    // disk faults: a directory with the name of the piece file makes storing that piece fail
    for p in sc["blocked"].as_array().map(|v| v.clone()).unwrap_or_default() {
        let i = p.as_u64().unwrap() as usize;
        let name = format!("{}.piece", t.hashes[i].iter().map(|b| format!("{:02X}", b)).collect::<String>());
        let _ = std::fs::create_dir_all(run.join(name));
    }
    // peers the client can connect to (listed by the tracker) must be reachable before the session starts
    for (i, p) in sc["peers"].as_array().unwrap().iter().enumerate() {
        if p["listen"].as_bool().unwrap_or(false) {
            let s = net::register_outgoing(&peers[i].addr, peers[i].buf);
            attach(&mut peers[i], s);
        }
    }
    let mut session = rdest::Session::new(metainfo, own_id);
    let session_job = tokio::task::spawn_local(async move { session.run().await });
    quiesce().await;

    let steps = sc["steps"].as_array().unwrap().clone();
    for (si, step) in steps.iter().enumerate() {
        let op = step["op"].as_str().unwrap();
        let pi = step["peer"].as_u64().unwrap_or(0) as usize;
        emit("Step", format!("\"i\":{},\"op\":\"{}\",\"peer\":\"{}\"", si, op, if step["peer"].is_null() { "".to_string() } else { peers[pi].label.clone() }));
        match op {
            "listen" => {
                // make the peer reachable for an outgoing connection of the client
                let s = net::register_outgoing(&peers[pi].addr, peers[pi].buf);
                attach(&mut peers[pi], s);
            }
            "connect" => {
                match net::connect_incoming(&peers[pi].addr, peers[pi].buf) {
                    Some(s) => attach(&mut peers[pi], s),
                    None => emit("Note", "\"what\":\"listener gone\"".to_string()),
                }
            }
            "send" => {
                let mut bytes = vec![];
                for f in step["frames"].as_array().unwrap() {
                    let enc = encode_frame(f, &t, &info_hash, &peers[pi].id);
                    emit("Send", format!("\"peer\":\"{}\",\"f\":{}", peers[pi].label, f));
                    if f["k"] == "Unchoke" { peers[pi].we_unchoked_client = true; }
                    if f["k"] == "Choke" { peers[pi].we_unchoked_client = false; if !peers[pi].rude { peers[pi].pending.clear(); } }
                    bytes.extend_from_slice(&enc);
                }
                let cuts: Vec<usize> = step["cuts"].as_array().map(|v| v.iter().map(|x| x.as_u64().unwrap() as usize).collect()).unwrap_or_default();
                let mut at = 0;
                for c in cuts.iter().chain(std::iter::once(&bytes.len())) {
                    let c = std::cmp::min(*c, bytes.len());
                    if c > at {
                        push(&mut peers[pi], &bytes[at..c]);
                        at = c;
                        quiesce().await;
                    }
                }
            }
            "advance_to" => {
                // absolute virtual time (ms since the start of the scenario)
                let target = t0 + Duration::from_millis(step["ms"].as_u64().unwrap());
                tokio::time::sleep_until(target).await;
            }
            "race" => {
                // write the frames and move the clock over a timer deadline before anything else runs,
                // so that the manager finds its timer and the resulting command ready at the same poll
                let mut bytes = vec![];
                for f in step["frames"].as_array().unwrap() {
                    bytes.extend_from_slice(&encode_frame(f, &t, &info_hash, &peers[pi].id));
                    emit("Send", format!("\"peer\":\"{}\",\"f\":{}", peers[pi].label, f));
                }
                push(&mut peers[pi], &bytes);
                tokio::task::yield_now().await;
                tokio::time::advance(Duration::from_millis(step["ms"].as_u64().unwrap_or(2))).await;
            }
            "burst" => {
                // frames of several peers written back to back, then one quiescence: the connection tasks
                // and the manager find them (and the resulting commands/broadcasts) ready together
                for part in step["parts"].as_array().unwrap() {
                    let pj = part["peer"].as_u64().unwrap() as usize;
                    let mut bytes = vec![];
                    for f in part["frames"].as_array().unwrap() {
                        bytes.extend_from_slice(&encode_frame(f, &t, &info_hash, &peers[pj].id));
                        emit("Send", format!("\"peer\":\"{}\",\"f\":{}", peers[pj].label, f));
                        if f["k"] == "Unchoke" { peers[pj].we_unchoked_client = true; }
                        if f["k"] == "Choke" { peers[pj].we_unchoked_client = false; if !peers[pj].rude { peers[pj].pending.clear(); } }
                    }
                    push(&mut peers[pj], &bytes);
                }
            }
            "close" => {
                peers[pi].stream = None;
                peers[pi].out = None;
            }
            "advance" => {
                // advance virtual time in slices so that timers fire in order and reactions happen
                let ms = step["ms"].as_u64().unwrap();
                let slice = step["slice"].as_u64().unwrap_or(1000);
                let mut left = ms;
                while left > 0 {
                    let d = std::cmp::min(left, slice);
                    tokio::time::sleep(Duration::from_millis(d)).await;
                    left -= d;
                    react(&mut peers, &t, &info_hash).await;
                }
            }
            "await_announces" => {
                // event driven: wait (in virtual time) until the tracker transport has seen `count` announces,
                // whatever the client's retry delays are; the given peer keeps talking so that it stays alive
                let want = step["count"].as_u64().unwrap() as usize;
                let cap = step["cap_ms"].as_u64().unwrap_or(4_200_000);
                let mut waited = 0u64;
                while http::urls().len() < want && waited < cap {
                    tokio::time::sleep(Duration::from_millis(500)).await;
                    waited += 500;
                    if waited % 30_000 == 0 && peers[pi].stream.is_some() {
                        let f = json!({"k": "Interested"});
                        let enc = encode_frame(&f, &t, &info_hash, &peers[pi].id);
                        emit("Send", format!("\"peer\":\"{}\",\"f\":{}", peers[pi].label, f));
                        push(&mut peers[pi], &enc);
                    }
                    react(&mut peers, &t, &info_hash).await;
                }
                emit("Awaited", format!("\"announces\":{},\"waited_ms\":{}", http::urls().len(), waited));
            }
            "delay_replies" => {
                // the next `count` replies of the manager reach their connection task `ms` ms (virtual) later
                rdest::verif::chan::delay_replies(step["ms"].as_u64().unwrap_or(1), step["count"].as_u64().unwrap_or(1) as usize);
            }
            "rates" => {
                let g = |k: &str| step[k].as_u64().map(|x| x as u32);
                rdest::verif::set_rate_override(&peers[pi].addr, Some((g("dl"), g("ul"))));
            }
            "tracker" => http::push(mk_outcome(&step["outcome"], &peers)),
            "serve" => {
                peers[pi].auto_serve = step["mode"].as_str().unwrap().to_string();
            }
            _ => panic!("unknown step {}", op),
        }
        if !step["settle"].as_bool().unwrap_or(true) {
            // the next step happens before the client had a chance to run
            continue;
        }
        react(&mut peers, &t, &info_hash).await;
        if step["scan"].as_bool().unwrap_or(true) {
            disk_scan(&t, &run);
        }
        let mut ps = panics.lock().unwrap();
        for p in ps.drain(..) {
            emit("Panic", format!("\"msg\":\"{}\"", trace::esc(&p)));
        }
        drop(ps);
        if session_job.is_finished() {
            emit("SessionEnded", String::new());
            break;
        }
    }
    disk_scan(&t, &run);
    emit("End", format!("\"session_alive\":{},\"connects\":{},\"urls\":{}", !session_job.is_finished(), json!(net::connect_log()), json!(http::urls())));
    session_job.abort();
    net::deactivate();
    http::uninstall();
    trace::stop()
}

/// Let the client run to quiescence, observe what it wrote, let auto-responding peers react; repeat.
async fn react(peers: &mut Vec<Peer>, t: &Torrent, info_hash: &[u8; 20]) {
    for _round in 0..400 {
        quiesce().await;
        let mut wrote = false;
        for pi in 0..peers.len() {
            let mut frames = vec![];
            let mut eof = false;
            {
                let peer = &mut peers[pi];
                if let Some(s) = peer.stream.as_mut() {
                    let mut tmp = vec![0u8; 1 << 16];
                    loop {
                        match tokio::time::timeout(Duration::ZERO, s.read(&mut tmp)).await {
                            Ok(Ok(0)) => { eof = true; break; }
                            Ok(Ok(n)) => {
                                peer.inbuf.extend_from_slice(&tmp[..n]);
                                wrote = true; // the client may have been blocked on a full stream: look again
                            }
                            _ => break,
                        }
                    }
                    frames = decode_out(&mut peer.inbuf, t);
                }
            }
            for f in frames.iter() {
                trace::emit("net", &format!("\"ev\":\"Out\",\"peer\":\"{}\",\"f\":{}", peers[pi].label, f));
                if f["k"] == "Request" {
                    let a: Vec<usize> = f["a"].as_array().unwrap().iter().map(|x| x.as_u64().unwrap() as usize).collect();
                    peers[pi].pending.push_back((a[0], a[1], a[2]));
                }
                if f["k"] == "Cancel" {
                    let a: Vec<usize> = f["a"].as_array().unwrap().iter().map(|x| x.as_u64().unwrap() as usize).collect();
                    peers[pi].pending.retain(|r| *r != (a[0], a[1], a[2]));
                }
            }
            if eof && !peers[pi].closed_seen {
                peers[pi].closed_seen = true;
                trace::emit("net", &format!("\"ev\":\"Closed\",\"peer\":\"{}\"", peers[pi].label));
            }
            // auto responder: an honest (or deliberately corrupting) seeder answers requests
            if peers[pi].auto_serve != "none" && (peers[pi].we_unchoked_client || peers[pi].rude) && peers[pi].stream.is_some() {
                while peers[pi].pending.len() > peers[pi].hold {
                    let (i, b, l) = if peers[pi].lifo { peers[pi].pending.pop_back().unwrap() } else { peers[pi].pending.pop_front().unwrap() };
                    if i >= t.npieces || !peers[pi].has[i] || l > 16384 || t.block(i, b, l).is_none() {
                        continue;
                    }
                    let bad = peers[pi].auto_serve == "corrupt" && peers[pi].corrupt.contains(&i);
                    let f = json!({"k": "Piece", "a": [i, b, l], "bad": bad});
                    let enc = encode_frame(&f, t, info_hash, &peers[pi].id);
                    emit("Send", format!("\"peer\":\"{}\",\"f\":{},\"auto\":true", peers[pi].label, f));
                    push(&mut peers[pi], &enc);
                    wrote = true;
                    quiesce().await;
                }
            }
        }
        if !wrote {
            break;
        }
    }
}
