//! Model-based test executor: reads one JSON case per line (generated from the TLA+ specs by
//! /verif/check), runs the named operation of the real rdest code under catch_unwind and prints
//! one JSON observation per line. All comparison with the specification's expected outcome is done
//! by the caller.
use rdest_verif_harness::util::*;
use serde_json::{json, Value};
use std::io::{BufRead, Write};

/// Encode a sequence of values the way a user of BEncoder would.
fn encode_all(vals: &[rdest::BValue]) -> Vec<u8> {
    let mut e = rdest::verif::BEncoder::new();
    for v in vals.iter() {
        match v {
            rdest::BValue::Int(i) => e.add_int(*i),
            rdest::BValue::ByteStr(b) => e.add_byte_str(b),
            rdest::BValue::List(l) => e.add_list(l),
            rdest::BValue::Dict(d) => e.add_dict(d),
        };
    }
    e.encode().clone()
}

fn frame_bytes(f: &rdest::verif::Frame) -> Vec<u8> {
    use rdest::verif::{Frame, Serializer};
    match f {
        Frame::Handshake(m) => m.data(),
        Frame::KeepAlive(m) => m.data(),
        Frame::Choke(m) => m.data(),
        Frame::Unchoke(m) => m.data(),
        Frame::Interested(m) => m.data(),
        Frame::NotInterested(m) => m.data(),
        Frame::Have(m) => m.data(),
        Frame::Bitfield(m) => m.data(),
        Frame::Request(m) => m.data(),
        Frame::Piece(m) => m.data(),
        Frame::Cancel(m) => m.data(),
    }
}

fn describe_frame(f: &rdest::verif::Frame) -> Value {
    serde_json::from_str(&rdest::verif::trace::describe(&frame_bytes(f))).unwrap_or(json!({"k": "?"}))
}

/// C06: feed a byte stream to a real Connection in the given segments and decode to quiescence
/// after each segment (quiescent = recv_frame still pending after 1 ms of paused virtual time).
async fn stream_case(case: &Value) -> Value {
    use tokio::io::AsyncWriteExt;
    let bytes = unhex(case["bytes"].as_str().unwrap());
    let cuts: Vec<usize> = case["cuts"].as_array().unwrap().iter().map(|c| c.as_u64().unwrap() as usize).collect();
    let eof = case["eof"].as_bool().unwrap_or(false);
    let (ours, theirs) = tokio::io::duplex(1 << 22);
    let mut remote = Some(theirs);
    let mut conn = rdest::verif::Connection::new("peer:1".to_string());
    conn.with_socket(rdest::verif::net::TcpStream::Mem(ours, "peer:1".to_string()));
    let mut frames = vec![];
    let mut end: Option<String> = None;
    let mut per_segment = vec![];
    let mut at = 0usize;
    let mut steps: Vec<Option<usize>> = cuts.iter().map(|c| Some(*c)).collect();
    if eof {
        steps.push(None);
    }
    for step in steps {
        match step {
            Some(cut) => {
                if let Some(r) = remote.as_mut() {
                    if r.write_all(&bytes[at..cut]).await.is_err() {
                        end = end.or(Some("harness: write failed".to_string()));
                    }
                }
                at = cut;
            }
            None => {
                remote = None; // peer closes
            }
        }
        if end.is_none() {
            loop {
                match tokio::time::timeout(std::time::Duration::from_millis(1), conn.recv_frame()).await {
                    Ok(Ok(Some(f))) => frames.push(describe_frame(&f)),
                    Ok(Ok(None)) => {
                        end = Some("closed".to_string());
                        break;
                    }
                    Ok(Err(e)) => {
                        end = Some(format!("err:{:?}", e));
                        break;
                    }
                    Err(_) => break,
                }
                if frames.len() > 100000 {
                    end = Some("harness: runaway".to_string());
                    break;
                }
            }
        }
        per_segment.push(frames.len());
    }
    json!({"frames": frames, "end": end, "buflen": conn.verif_buffer_len(), "per_segment": per_segment})
}

fn content(n: usize, pat: u64) -> Vec<u8> {
    (0..n).map(|i| ((i * 131 + pat as usize) % 251) as u8).collect()
}

fn walk(root: &std::path::Path, dir: &std::path::Path, out: &mut Vec<Value>) {
    let mut entries: Vec<_> = match std::fs::read_dir(dir) {
        Ok(rd) => rd.filter_map(|e| e.ok()).collect(),
        Err(_) => return,
    };
    entries.sort_by_key(|e| e.file_name());
    for e in entries {
        let p = e.path();
        let rel = p.strip_prefix(root).unwrap().to_string_lossy().to_string();
        let md = match std::fs::symlink_metadata(&p) {
            Ok(m) => m,
            Err(_) => continue,
        };
        if md.is_dir() {
            out.push(json!([rel, "d", 0, ""]));
            walk(root, &p, out);
        } else {
            let data = std::fs::read(&p).unwrap_or_default();
            out.push(json!([rel, "f", data.len(), hex(&sha1(&data))]));
        }
    }
}

/// C03/C04/C17: parse a torrent, store its pieces as <SHA1>.piece files in a scratch start
/// directory inside a canary parent, run the real Extractor, list everything that exists afterwards.
async fn extract_case(case: &Value) -> Value {
    let scratch = std::path::PathBuf::from(case["scratch"].as_str().unwrap());
    let canary = scratch.join("canary");
    let run = canary.join("run");
    let _ = std::fs::remove_dir_all(&scratch);
    std::fs::create_dir_all(&run).unwrap();
    let torrent_hex = case["torrent"].as_str().unwrap().replace(&hex(b"@ROOT@"), &hex(canary.join("abs_target").to_string_lossy().as_bytes()));
    // the bencoded length prefix of a string containing @ROOT@ is fixed up by the caller through "root_len"
    let torrent = unhex(&torrent_hex);
    let res = extract_inner(case, &torrent, &run).await;
    let mut tree = vec![];
    walk(&canary, &canary, &mut tree);
    std::env::set_current_dir("/").unwrap();
    let _ = std::fs::remove_dir_all(&scratch);
    let mut res = res;
    res["tree"] = json!(tree);
    res["canary"] = json!(canary.to_string_lossy());
    res
}

async fn extract_inner(case: &Value, torrent: &[u8], run: &std::path::Path) -> Value {
    let m = match guarded(|| rdest::Metainfo::from_bencode(torrent)) {
        Ok(Ok(m)) => m,
        Ok(Err(e)) => return json!({"parse": format!("err:{:?}", e)}),
        Err(p) => return json!({"parse": "panic", "panic": p}),
    };
    std::env::set_current_dir(run).unwrap();
    let data = content(case["content_len"].as_u64().unwrap() as usize, case["pat"].as_u64().unwrap_or(0));
    let pl = case["pl"].as_u64().unwrap() as usize;
    let mut stored = 0;
    if pl > 0 {
        for (i, chunk) in data.chunks(pl).enumerate() {
            if i < m.pieces_num() {
                let name = rdest::verif::hash_to_string(m.piece(i)) + ".piece";
                std::fs::write(name, chunk).unwrap();
                stored += 1;
            }
        }
    }
    let n = m.pieces_num();
    let acc = guarded(|| {
        let pls: Vec<usize> = (0..n).map(|i| m.piece_length(i)).collect();
        let ranges: Vec<Value> = m
            .file_piece_ranges()
            .iter()
            .map(|(p, a, b)| json!([p.to_string_lossy(), a.file_index, a.byte_index, b.file_index, b.byte_index]))
            .collect();
        json!({"piece_lengths": pls, "ranges": ranges, "total_length": m.total_length()})
    });
    let (tx, mut rx) = tokio::sync::mpsc::channel(4);
    let mut ex = rdest::verif::Extractor::new(m.clone(), tx);
    let job = tokio::spawn(async move { ex.run().await });
    let cmd = match job.await {
        Ok(()) => match rx.recv().await {
            Some(rdest::verif::ExtractorCmd::Done) => "Done".to_string(),
            Some(rdest::verif::ExtractorCmd::Fail(e)) => format!("Fail:{}", e),
            None => "none".to_string(),
        },
        Err(e) => format!("panic:{}", e),
    };
    json!({"parse": "ok", "cmd": cmd, "pieces_num": n, "stored": stored,
           "acc": match acc { Ok(v) => v, Err(p) => json!({"panic": p}) }})
}

/// C17: create a .torrent for a file and parse it back.
fn create_case(case: &Value) -> Value {
    let scratch = std::path::PathBuf::from(case["scratch"].as_str().unwrap());
    let _ = std::fs::remove_dir_all(&scratch);
    std::fs::create_dir_all(&scratch).unwrap();
    std::env::set_current_dir(&scratch).unwrap();
    let name = case["name"].as_str().unwrap();
    let data = content(case["content_len"].as_u64().unwrap() as usize, case["pat"].as_u64().unwrap_or(0));
    std::fs::write(scratch.join(name), &data).unwrap();
    let tracker = case["tracker"].as_str().unwrap().to_string();
    let path = scratch.join(name);
    let res = guarded(|| rdest::Metainfo::create_file(&path, &tracker));
    let out = match res {
        Ok(Ok(())) => match std::fs::read(scratch.join(format!("{}.torrent", name))) {
            Ok(t) => json!({"create": "ok", "parsed": metainfo_case(&json!({"input": hex(&t)})), "torrent": hex(&t[..t.len().min(200)])}),
            Err(e) => json!({"create": format!("no torrent file: {}", e)}),
        },
        Ok(Err(e)) => json!({"create": format!("err:{:?}", e)}),
        Err(p) => json!({"panic": p}),
    };
    std::env::set_current_dir("/").unwrap();
    let _ = std::fs::remove_dir_all(&scratch);
    out
}

/// C18: run the real TrackerClient (real reqwest) against a loopback HTTP listener and capture the
/// request it sends. Runs on its own runtime with a real clock.
fn announce_case(case: &Value) -> Value {
    let rt = tokio::runtime::Builder::new_current_thread().enable_all().build().unwrap();
    rt.block_on(async {
        use tokio::io::{AsyncReadExt, AsyncWriteExt};
        let mut listener = None;
        for _ in 0..50 {
            let l = tokio::net::TcpListener::bind("127.0.0.1:0").await.unwrap();
            if l.local_addr().unwrap().port() >= 10000 {
                listener = Some(l);
                break;
            }
        }
        let listener = match listener {
            Some(l) => l,
            None => return json!({"error": "no 5-digit port"}),
        };
        let port = listener.local_addr().unwrap().port();
        let torrent_hex = case["torrent"].as_str().unwrap().replace(&hex(b"PORTX"), &hex(port.to_string().as_bytes()));
        let mut m = match rdest::Metainfo::from_bencode(&unhex(&torrent_hex)) {
            Ok(m) => m,
            Err(e) => return json!({"error": format!("torrent: {:?}", e)}),
        };
        let mut h = [0u8; 20];
        h.copy_from_slice(&unhex(case["hash"].as_str().unwrap()));
        m.verif_set_info_hash(h);
        let mut id = [0u8; 20];
        id.copy_from_slice(case["peer_id"].as_str().unwrap().as_bytes());
        let server = tokio::spawn(async move {
            let (mut sock, _) = listener.accept().await.unwrap();
            let mut buf = vec![];
            let mut tmp = [0u8; 4096];
            loop {
                let n = sock.read(&mut tmp).await.unwrap_or(0);
                if n == 0 {
                    break;
                }
                buf.extend_from_slice(&tmp[..n]);
                if buf.windows(4).any(|w| w == b"\r\n\r\n") {
                    break;
                }
            }
            let body = b"d8:intervali1800e5:peerslee";
            let resp = format!("HTTP/1.1 200 OK\r\nContent-Length: {}\r\nConnection: close\r\n\r\n", body.len());
            let _ = sock.write_all(resp.as_bytes()).await;
            let _ = sock.write_all(body).await;
            let _ = sock.shutdown().await;
            buf
        });
        let (tx, mut rx) = tokio::sync::mpsc::channel(8);
        let created_url = rdest::TrackerClient::verif_create_url(&m);
        let mut client = rdest::TrackerClient::new(&id, m, tx);
        let job = tokio::spawn(async move { client.run().await });
        let req = match tokio::time::timeout(std::time::Duration::from_secs(10), server).await {
            Ok(Ok(b)) => b,
            _ => return json!({"error": "no request within 10 s", "created_url": created_url}),
        };
        let cmd = match tokio::time::timeout(std::time::Duration::from_secs(10), rx.recv()).await {
            Ok(Some(rdest::verif::TrackerCmd::TrackerResp(_))) => "resp".to_string(),
            Ok(Some(rdest::verif::TrackerCmd::Fail(e))) => format!("fail:{}", e),
            _ => "none".to_string(),
        };
        job.abort();
        json!({"request": hex(&req), "port": port, "cmd": cmd, "created_url": created_url})
    })
}

async fn run_case_async(case: &Value) -> Value {
    match case["op"].as_str().unwrap_or("") {
        "extract" => extract_case(case).await,
        "stream" => stream_case(case).await,
        _ => run_case(case),
    }
}

fn payload(n: usize, pat: u64) -> Vec<u8> {
    (0..n).map(|i| ((pat as usize + i * 7) % 256) as u8).collect()
}

fn head(b: &[u8]) -> String {
    hex(&b[..b.len().min(96)])
}

/// C07: build a message through its public constructor, serialize it, parse the bytes back
/// (alone and followed by trailing bytes) and re-serialize what was parsed.
fn wire_case(case: &Value) -> Value {
    use rdest::verif::*;
    let k = case["k"].as_str().unwrap();
    let u = |name: &str| case[name].as_u64().unwrap_or(0) as usize;
    let pay = payload(u("n"), case["pat"].as_u64().unwrap_or(0));
    let h20 = |name: &str| -> [u8; 20] {
        let v = unhex(case[name].as_str().unwrap_or("0000000000000000000000000000000000000000"));
        let mut a = [0u8; 20];
        a.copy_from_slice(&v);
        a
    };
    let data: Vec<u8> = match k {
        "KeepAlive" => KeepAlive::new().data(),
        "Choke" => Choke::new().data(),
        "Unchoke" => Unchoke::new().data(),
        "Interested" => Interested::new().data(),
        "NotInterested" => NotInterested::new().data(),
        "Have" => Have::new(u("idx")).data(),
        "Request" => Request::new(u("idx"), u("begin"), u("len")).data(),
        "Cancel" => Cancel::new(u("idx"), u("begin"), u("len")).data(),
        "Piece" => Piece::new(u("idx"), u("begin"), pay.clone()).data(),
        "Bitfield" => {
            // a Bitfield with arbitrary bytes can only be obtained by parsing; build it from bits
            let bits: Vec<bool> = pay.iter().flat_map(|b| (0..8).map(move |i| b & (0x80 >> i) != 0)).collect();
            Bitfield::from_vec(&bits).data()
        }
        "Handshake" => Handshake::new(&h20("ih"), &h20("id")).data(),
        _ => return json!({"error": "kind"}),
    };
    let mut out = json!({"len": data.len(), "head": head(&data), "sha": hex(&sha1(&data))});
    let trail = unhex(case["trail"].as_str().unwrap_or(""));
    let mut buf = data.clone();
    buf.extend_from_slice(&trail);
    let mut crs = std::io::Cursor::new(&buf[..]);
    out["parse"] = match Frame::parse(&mut crs) {
        Ok(f) => {
            let re = frame_bytes(&f);
            let mut acc = json!({});
            match &f {
                Frame::Have(m) => acc = json!({"idx": m.piece_index()}),
                Frame::Request(m) => acc = json!({"idx": m.piece_index(), "begin": m.block_begin(), "len": m.block_length()}),
                Frame::Piece(m) => acc = json!({"idx": m.piece_index(), "begin": m.block_begin(), "len": m.block_length(), "block_sha": hex(&sha1(m.block()))}),
                Frame::Handshake(m) => acc = json!({"id": hex(m.peer_id()), "valid_same": m.validate(&h20("ih"), &Some(h20("id"))).is_ok()}),
                _ => (),
            }
            json!({"ok": true, "pos": crs.position(), "re_len": re.len(), "re_head": head(&re), "re_sha": hex(&sha1(&re)), "acc": acc, "desc": describe_frame(&f)})
        }
        Err(e) => json!({"ok": false, "err": format!("{:?}", e), "pos": crs.position()}),
    };
    out
}

fn bits_case(case: &Value) -> Value {
    use rdest::verif::*;
    let bits: Vec<bool> = case["bits"].as_array().unwrap().iter().map(|b| b.as_bool().unwrap()).collect();
    let bf = Bitfield::from_vec(&bits);
    let data = bf.data();
    let back = bf.to_vec(bits.len());
    // and through the wire: parse the serialized message, then unpack
    let mut crs = std::io::Cursor::new(&data[..]);
    let wire_back = match Frame::parse(&mut crs) {
        Ok(Frame::Bitfield(b)) => match (b.validate(bits.len()), b.to_vec(bits.len())) {
            (Ok(()), Ok(v)) => json!(v),
            (e1, e2) => json!(format!("{:?} {:?}", e1, e2.err())),
        },
        Ok(_) => json!("other frame"),
        Err(e) => json!(format!("{:?}", e)),
    };
    json!({"data": hex(&data), "back": match back { Ok(v) => json!(v), Err(e) => json!(format!("{:?}", e)) }, "wire_back": wire_back})
}

/// C05/C17: parse a document as metainfo, report every field and call every accessor.
fn metainfo_case(case: &Value) -> Value {
    let input = unhex(case["input"].as_str().unwrap());
    let m = match guarded(|| rdest::Metainfo::from_bencode(&input)) {
        Ok(Ok(m)) => m,
        Ok(Err(e)) => return json!({"ok": false, "err": format!("{:?}", e)}),
        Err(p) => return json!({"panic": p}),
    };
    let (announce, name, pl, files) = m.verif_fields();
    let mut out = json!({"ok": true, "announce": hex(announce.as_bytes()), "name": hex(name.as_bytes()), "pl": pl.to_string(),
        "files": files.iter().map(|f| json!([f.length.to_string(), hex(f.path.as_bytes())])).collect::<Vec<_>>(),
        "info_hash": hex(m.info_hash()), "tracker_url": hex(m.tracker_url().as_bytes())});
    let n = match guarded(|| m.pieces_num()) {
        Ok(n) => n,
        Err(p) => {
            out["acc_panic"] = json!(format!("pieces_num: {}", p));
            return out;
        }
    };
    out["pieces"] = json!((0..n).map(|i| hex(m.piece(i))).collect::<Vec<_>>());
    let mut panics = vec![];
    match guarded(|| m.total_length()) {
        Ok(t) => out["total_length"] = json!(t.to_string()),
        Err(p) => panics.push(format!("total_length: {}", p)),
    }
    let limit = n.min(64);
    match guarded(|| (0..limit).map(|i| m.piece_length(i)).collect::<Vec<usize>>()) {
        Ok(v) => out["piece_lengths"] = json!(v),
        Err(p) => panics.push(format!("piece_length: {}", p)),
    }
    match guarded(|| {
        m.file_piece_ranges()
            .iter()
            .map(|(p, a, b)| json!([p.to_string_lossy(), a.file_index, a.byte_index, b.file_index, b.byte_index]))
            .collect::<Vec<Value>>()
    }) {
        Ok(v) => out["ranges"] = json!(v),
        Err(p) => panics.push(format!("file_piece_ranges: {}", p)),
    }
    if !panics.is_empty() {
        out["acc_panic"] = json!(panics.join("; "));
    }
    out
}

/// C19: parse a tracker reply.
fn tracker_case(case: &Value) -> Value {
    let input = unhex(case["input"].as_str().unwrap());
    match guarded(|| rdest::TrackerResp::from_bencode(&input)) {
        Ok(Ok(r)) => {
            let (interval, peers) = r.verif_fields();
            let listed = match guarded(|| r.peers()) {
                Ok(v) => json!(v.iter().map(|(a, id)| json!([a, hex(id)])).collect::<Vec<_>>()),
                Err(p) => json!({"panic": p}),
            };
            json!({"ok": true, "interval": interval.to_string(),
                   "peers": peers.iter().map(|(ip, id, port)| json!([hex(ip.as_bytes()), hex(id), port.to_string()])).collect::<Vec<_>>(),
                   "listed": listed})
        }
        Ok(Err(e)) => json!({"ok": false, "err": format!("{:?}", e), "failure": matches!(e, rdest::Error::TrackerRespFail(_))}),
        Err(p) => json!({"panic": p}),
    }
}

fn run_case(case: &Value) -> Value {
    let op = case["op"].as_str().unwrap_or("");
    match op {
        "metainfo" => metainfo_case(case),
        "create" => create_case(case),
        "tracker_resp" => tracker_case(case),
        "wire" => wire_case(case),
        "bits" => bits_case(case),
        "bdecode" => {
            let input = unhex(case["input"].as_str().unwrap());
            match guarded(|| rdest::BDecoder::from_array(&input)) {
                Ok(Ok(vals)) => json!({"ok": true, "values": vals.iter().map(bvalue_to_json).collect::<Vec<_>>()}),
                Ok(Err(e)) => json!({"ok": false, "err": format!("{:?}", e)}),
                Err(p) => json!({"panic": p}),
            }
        }
        "bencode" => {
            // encode a list of values the way a user of BEncoder would, then decode it again
            let vals: Vec<rdest::BValue> = case["values"].as_array().unwrap().iter().map(json_to_bvalue).collect();
            let enc = guarded(|| encode_all(&vals));
            match enc {
                Ok(bytes) => {
                    let dec = match guarded(|| rdest::BDecoder::from_array(&bytes)) {
                        Ok(Ok(v)) => json!({"ok": true, "same": v == vals, "values": v.iter().map(bvalue_to_json).collect::<Vec<_>>()}),
                        Ok(Err(e)) => json!({"ok": false, "err": format!("{:?}", e)}),
                        Err(p) => json!({"panic": p}),
                    };
                    json!({"enc": hex(&bytes), "dec": dec})
                }
                Err(p) => json!({"panic": p}),
            }
        }
        "reencode" => {
            let input = unhex(case["input"].as_str().unwrap());
            match guarded(|| rdest::BDecoder::from_array(&input)) {
                Ok(Ok(vals)) => match guarded(|| encode_all(&vals)) {
                    Ok(bytes) => json!({"ok": true, "enc": hex(&bytes)}),
                    Err(p) => json!({"panic": p}),
                },
                Ok(Err(e)) => json!({"ok": false, "err": format!("{:?}", e)}),
                Err(p) => json!({"panic": p}),
            }
        }
        _ => json!({"error": format!("unknown op {}", op)}),
    }
}

fn main() {
    quiet_panics();
    let rt = tokio::runtime::Builder::new_current_thread()
        .enable_all()
        .start_paused(true)
        .build()
        .unwrap();
    let stdin = std::io::stdin();
    let stdout = std::io::stdout();
    let mut out = std::io::BufWriter::new(stdout.lock());
    for line in stdin.lock().lines() {
        let line = line.unwrap();
        if line.trim().is_empty() {
            continue;
        }
        let case: Value = serde_json::from_str(&line).unwrap();
        let obs = match guarded(|| match case["op"].as_str() {
            Some("announce") => announce_case(&case),
            _ => rt.block_on(run_case_async(&case)),
        }) {
            Ok(v) => v,
            Err(p) => json!({"panic": p}),
        };
        writeln!(out, "{}", obs).unwrap();
    }
}
