//! Model-based test executor: reads one JSON case per line (generated from the TLA+ specs by
//! /verif/check), runs the named operation of the real rdest code under catch_unwind and prints
//! one JSON observation per line. All comparison with the specification's expected outcome is done
//! by the caller.
use rdest_verif_harness::util::*;
use serde_json::{json, Value};
use std::io::{BufRead, Write};

/// Encode a sequence of values the way a user of BEncoder would.
fn encode_all(vals: &[rdest::BValue]) -> Vec<u8> {
    let mut e = rdest::verif::BEncoder::new();
    for v in vals.iter() {
        match v {
            rdest::BValue::Int(i) => e.add_int(*i),
            rdest::BValue::ByteStr(b) => e.add_byte_str(b),
            rdest::BValue::List(l) => e.add_list(l),
            rdest::BValue::Dict(d) => e.add_dict(d),
        };
    }
    e.encode().clone()
}

fn run_case(case: &Value) -> Value {
    let op = case["op"].as_str().unwrap_or("");
    match op {
        "bdecode" => {
            let input = unhex(case["input"].as_str().unwrap());
            match guarded(|| rdest::BDecoder::from_array(&input)) {
                Ok(Ok(vals)) => json!({"ok": true, "values": vals.iter().map(bvalue_to_json).collect::<Vec<_>>()}),
                Ok(Err(e)) => json!({"ok": false, "err": format!("{:?}", e)}),
                Err(p) => json!({"panic": p}),
            }
        }
        "bencode" => {
            // encode a list of values the way a user of BEncoder would, then decode it again
            let vals: Vec<rdest::BValue> = case["values"].as_array().unwrap().iter().map(json_to_bvalue).collect();
            let enc = guarded(|| encode_all(&vals));
            match enc {
                Ok(bytes) => {
                    let dec = match guarded(|| rdest::BDecoder::from_array(&bytes)) {
                        Ok(Ok(v)) => json!({"ok": true, "same": v == vals, "values": v.iter().map(bvalue_to_json).collect::<Vec<_>>()}),
                        Ok(Err(e)) => json!({"ok": false, "err": format!("{:?}", e)}),
                        Err(p) => json!({"panic": p}),
                    };
                    json!({"enc": hex(&bytes), "dec": dec})
                }
                Err(p) => json!({"panic": p}),
            }
        }
        "reencode" => {
            let input = unhex(case["input"].as_str().unwrap());
            match guarded(|| rdest::BDecoder::from_array(&input)) {
                Ok(Ok(vals)) => match guarded(|| encode_all(&vals)) {
                    Ok(bytes) => json!({"ok": true, "enc": hex(&bytes)}),
                    Err(p) => json!({"panic": p}),
                },
                Ok(Err(e)) => json!({"ok": false, "err": format!("{:?}", e)}),
                Err(p) => json!({"panic": p}),
            }
        }
        _ => json!({"error": format!("unknown op {}", op)}),
    }
}

fn main() {
    quiet_panics();
    let stdin = std::io::stdin();
    let stdout = std::io::stdout();
    let mut out = std::io::BufWriter::new(stdout.lock());
    for line in stdin.lock().lines() {
        let line = line.unwrap();
        if line.trim().is_empty() {
            continue;
        }
        let case: Value = serde_json::from_str(&line).unwrap();
        let obs = run_case(&case);
        writeln!(out, "{}", obs).unwrap();
    }
}
